package main

import (
	"encoding/json"
	"flag"
	"fmt"
	"os"
	"os/exec"
	"path/filepath"
	"sort"
	"strings"
	"time"

	"govc/internal/vc"
)

const verifDir = "/verif"

func main() {
	if len(os.Args) < 2 {
		fmt.Fprintln(os.Stderr, "usage: govc check|replay|ssa ...")
		os.Exit(2)
	}
	switch os.Args[1] {
	case "check":
		os.Exit(check(os.Args[2:]))
	case "replay":
		os.Exit(replayCmd(os.Args[2:]))
	case "ssa":
		os.Exit(dumpSSA(os.Args[2:]))
	default:
		fmt.Fprintln(os.Stderr, "unknown command")
		os.Exit(2)
	}
}

func contractPkgs(repo string) []string {
	ms, _ := filepath.Glob(filepath.Join(repo, "*", "verif_contracts*.go"))
	seen := map[string]bool{}
	var out []string
	for _, m := range ms {
		d := "./" + filepath.Base(filepath.Dir(m))
		if !seen[d] {
			seen[d] = true
			out = append(out, d)
		}
	}
	sort.Strings(out)
	return out
}

func hasProp(props []string, p string) bool {
	if p == "" || p == "all" {
		return true
	}
	for _, x := range props {
		if x == p {
			return true
		}
	}
	return false
}

// known findings -------------------------------------------------------------

type finding struct {
	kind, prop, obligation, text string
}

func loadFindings() []finding {
	data, err := os.ReadFile(filepath.Join(verifDir, "known-findings.txt"))
	if err != nil {
		return nil
	}
	var out []finding
	for _, l := range strings.Split(string(data), "\n") {
		l = strings.TrimSpace(l)
		if l == "" || strings.HasPrefix(l, "#") {
			continue
		}
		kind, rest, ok := strings.Cut(l, ":")
		if !ok || (kind != "finding" && kind != "fixed") {
			continue
		}
		f := finding{kind: kind}
		var words []string
		for _, w := range strings.Fields(rest) {
			switch {
			case strings.HasPrefix(w, "property="):
				f.prop = w[len("property="):]
			case strings.HasPrefix(w, "obligation="):
				f.obligation = w[len("obligation="):]
			default:
				words = append(words, w)
			}
		}
		f.text = strings.Join(words, " ")
		out = append(out, f)
	}
	return out
}

// replay files ----------------------------------------------------------------

type replayFile struct {
	Property   string         `json:"property"`
	Obligation string         `json:"obligation"`
	Function   string         `json:"function"`
	Pkg        string         `json:"pkg"`
	Goal       string         `json:"goal"`
	Kind       string         `json:"kind"`
	Result     string         `json:"solver_result"`
	Solver     string         `json:"solver"`
	Inputs     map[string]any `json:"inputs,omitempty"`
	SolverOut  string         `json:"solver_output"`
	SMTFile    string         `json:"smt_file,omitempty"`
	EngineErr  string         `json:"engine_error,omitempty"`
	Replayed   string         `json:"replay_outcome"`
	Note       string         `json:"note"`
}

func trim(s string, n int) string {
	if len(s) > n {
		return s[:n] + "...[truncated]"
	}
	return s
}

// runReplay executes the package's replay driver against the real code; returns outcome text.
func runReplay(repo string, rf *replayFile, path string) (string, bool) {
	pkgDir := strings.TrimPrefix(rf.Pkg, vc.ModPath+"/")
	driver := filepath.Join(verifDir, "replay", pkgDir, "zz_govc_replay_test.go")
	if _, err := os.Stat(driver); err != nil {
		return "no replay driver for package " + pkgDir, false
	}
	if rf.Inputs == nil && !scenarioDriver(driver) {
		return "solver gave no model to replay", false
	}
	tmp, err := os.MkdirTemp("", "govc-replay")
	if err != nil {
		return err.Error(), false
	}
	defer os.RemoveAll(tmp)
	ov := map[string]any{"Replace": map[string]string{filepath.Join(repo, pkgDir, "zz_govc_replay_test.go"): driver}}
	ovData, _ := json.Marshal(ov)
	ovPath := filepath.Join(tmp, "overlay.json")
	os.WriteFile(ovPath, ovData, 0o644)
	goArgs := []string{"test", "-overlay", ovPath, "-vet=off", "-count=1", "-v", "-timeout", "120s", "-run", "^TestGovcReplay$"}
	if drv, err := os.ReadFile(driver); err == nil && strings.Contains(string(drv), "govc-replay: needs -race") {
		goArgs = append(goArgs, "-race")
	}
	goArgs = append(goArgs, "./"+pkgDir)
	cmd := exec.Command("go", goArgs...)
	cmd.Dir = repo
	cmd.Env = append(os.Environ(), "GOFLAGS=-mod=mod", "GOPROXY=off", "GOSUMDB=off", "GOTOOLCHAIN=local", "GOVC_REPLAY_FILE="+path)
	out, _ := cmd.CombinedOutput()
	verdictMsg := ""
	for _, l := range strings.Split(string(out), "\n") {
		if i := strings.Index(l, "GOVC-REPLAY: "); i >= 0 {
			verdictMsg = l[i+len("GOVC-REPLAY: "):]
			if strings.HasPrefix(verdictMsg, "REPRODUCED") {
				return verdictMsg, true
			}
		}
	}
	if i := strings.Index(string(out), "WARNING: DATA RACE"); i >= 0 {
		// the race detector saw two conflicting accesses; report it when a frame of the package's own code is involved
		rep := string(out)[i:]
		if j := strings.Index(rep, "=================="); j > 0 {
			rep = rep[:j]
		}
		if strings.Contains(rep, "/"+pkgDir+"/") {
			var frames []string
			for _, l := range strings.Split(rep, "\n") {
				l = strings.TrimSpace(l)
				if strings.HasPrefix(l, "Read at") || strings.HasPrefix(l, "Write at") || strings.HasPrefix(l, "Previous") || (strings.Contains(l, "/"+pkgDir+"/") && !strings.Contains(l, "_test.go")) {
					frames = append(frames, l)
				}
			}
			return "REPRODUCED data race reported by the Go race detector: " + trim(strings.Join(frames, " | "), 600), true
		}
	}
	if verdictMsg != "" {
		return verdictMsg, false
	}
	return "replay driver produced no verdict: " + trim(string(out), 400), false
}

// scenarioDriver: drivers for concurrency packages replay scenarios chosen from the obligation name and
// need no solver model.
func scenarioDriver(path string) bool {
	data, err := os.ReadFile(path)
	return err == nil && strings.Contains(string(data), "maps the failed obligation to the scenario")
}

func replayCmd(args []string) int {
	fs := flag.NewFlagSet("replay", flag.ExitOnError)
	repo := fs.String("repo", "/repo", "repository root")
	fs.Parse(args)
	if fs.NArg() < 1 {
		fmt.Println("usage: govc replay <file>")
		return 2
	}
	data, err := os.ReadFile(fs.Arg(0))
	if err != nil {
		fmt.Println(err)
		return 2
	}
	var rf replayFile
	if err := json.Unmarshal(data, &rf); err != nil {
		fmt.Println(err)
		return 2
	}
	fmt.Printf("obligation: %s\ngoal: %s\nsolver: %s -> %s\n", rf.Obligation, rf.Goal, rf.Solver, rf.Result)
	msg, ok := runReplay(*repo, &rf, fs.Arg(0))
	fmt.Println("replay:", msg)
	if ok {
		fmt.Printf("VIOLATION property=%s replay=%s\n", rf.Property, fs.Arg(0))
		return 1
	}
	if rf.Result != "unsat" {
		fmt.Printf("VIOLATION property=%s replay=%s no-failing-input-found\n", rf.Property, fs.Arg(0))
		return 1
	}
	return 0
}

// check -------------------------------------------------------------------------

func check(args []string) int {
	fs := flag.NewFlagSet("check", flag.ExitOnError)
	repo := fs.String("repo", "/repo", "repository root")
	prop := fs.String("prop", "all", "property id")
	tier := fs.String("tier", "quick", "quick|thorough")
	fn := fs.String("func", "", "only this function key (substring)")
	pkgsFlag := fs.String("pkgs", "", "comma separated package dirs (default: all with contract files)")
	dump := fs.String("dump", "", "directory to keep .smt2 files")
	timeout := fs.Duration("timeout", 20*time.Second, "per-obligation timeout")
	evidence := fs.String("evidence", "", "evidence file to write")
	verbose := fs.Bool("v", false, "verbose")
	noReplay := fs.Bool("noreplay", false, "do not run replays")
	fs.Parse(args)
	start := time.Now()
	seed := 0
	fmt.Sscanf(os.Getenv("VERIF_SEED"), "%d", &seed)

	pkgs := contractPkgs(*repo)
	if *pkgsFlag != "" {
		pkgs = strings.Split(*pkgsFlag, ",")
	}
	if len(pkgs) == 0 {
		fmt.Println("no contract files found")
		return 2
	}
	eng, err := vc.Load(*repo, pkgs)
	var obls []*vc.Obligation
	type engErr struct {
		msg   string
		props []string
		fn    string
		pkg   string
	}
	var engineErrs []engErr
	if err != nil {
		// the repository does not load (compile error etc.): nothing can be proved
		fmt.Println("LOAD ERROR:", err)
		engineErrs = append(engineErrs, engErr{msg: "load error: " + err.Error(), props: []string{*prop}})
		eng = &vc.Engine{Specs: map[string]*vc.PkgSpec{}, Assumptions: map[string]bool{}, Externals: map[string]bool{}}
	}
	var paths []string
	for p := range eng.Specs {
		paths = append(paths, p)
	}
	sort.Strings(paths)
	for _, p := range paths {
		ps := eng.Specs[p]
		for _, key := range ps.Order {
			ct := ps.Funcs[key]
			// C13 (no data race) is decided by the lock-discipline obligations of every function under contract
			if (!hasProp(ct.Props, *prop) && *prop != "C13") || (*fn != "" && !strings.Contains(key, *fn)) {
				continue
			}
			if ct.InlineOnly {
				continue
			}
			if ct.Trusted != "" {
				eng.Assumptions["trusted contract (body not verified): "+key+" -- "+ct.Trusted] = true
				continue
			}
			f := eng.LookupFunc(p, key)
			if f == nil {
				engineErrs = append(engineErrs, engErr{fmt.Sprintf("contract names function %s which no longer exists in %s", key, p), ct.Props, key, p})
				continue
			}
			os2, err := eng.VerifyFunc(f, ct)
			if err != nil && *prop == "C13" {
				// the functional clauses no longer match the code (a renamed variable, a removed loop): the lock
				// discipline does not depend on them - generate its obligations from the object declarations and
				// the helper/closure structure alone, so that a real race is reported by its own obligation
				eng.Strip = true
				os3, err2 := eng.VerifyFunc(f, eng.Stripped(ct))
				eng.Strip = false
				if err2 != nil && os.Getenv("GOVC_DEBUG") != "" {
					fmt.Println("DEBUG stripped:", err2)
				}
				if err2 == nil {
					fmt.Printf("NOTE: %s: functional clauses no longer match the code (%s); lock-discipline obligations generated without them\n", key, err.Error())
					os2, err = os3, nil
				}
			}
			if err != nil {
				engineErrs = append(engineErrs, engErr{err.Error(), ct.Props, key, p})
			}
			for _, o := range os2 {
				// obligations generated from clauses tagged with their own properties (inv T1[C14]: ...) count
				// only for those properties; reachability covers always count
				if *prop == "C13" {
					if o.Kind == "vacuity" || isDisciplineObligation(o.Name) {
						obls = append(obls, o)
					}
					continue
				}
				if o.Kind == "vacuity" || len(o.Props) == 0 || hasProp(o.Props, *prop) {
					obls = append(obls, o)
				}
			}
			eng.FuncsVerified = append(eng.FuncsVerified, p[len(vc.ModPath)+1:]+"."+key)
		}
		for _, lm := range ps.Lemmas {
			if !hasProp(lm.Props, *prop) || *fn != "" {
				continue
			}
			os2, err := eng.VerifyLemma(lm)
			if err != nil {
				engineErrs = append(engineErrs, engErr{err.Error(), lm.Props, "lemma " + lm.Name, p})
			}
			obls = append(obls, os2...)
		}
	}
	dir := *dump
	if dir == "" {
		dir, _ = os.MkdirTemp("", "govc")
		defer os.RemoveAll(dir)
	} else {
		os.MkdirAll(dir, 0o755)
	}
	cfg := &vc.SolverCfg{Timeout: *timeout, Solvers: []string{"z3-new", "z3", "cvc5"}, Dir: dir, Parallel: 6, Seed: seed}
	if *tier == "thorough" {
		cfg.All = true
		cfg.Grace = 4 * time.Second
		if *timeout == 20*time.Second {
			cfg.Timeout = 60 * time.Second
		}
	}
	vc.SolveAll(obls, cfg)
	// second chance for obligations without a definite answer: fewer solvers at a time, four times the budget
	// (a proof that needs 9 s of one core times out when 18 solver processes share 16 cores)
	var retry []*vc.Obligation
	knownNames := map[string]bool{}
	for _, f := range loadFindings() {
		if f.kind == "finding" {
			knownNames[f.obligation] = true
		}
	}
	for _, o := range obls {
		if knownNames[o.Name] {
			continue // a recorded finding: expected to stay undischarged, no second pass
		}
		if !o.Static && o.Kind != "vacuity" && !o.Passed() && (o.Result == "unknown" || o.Result == "timeout") {
			retry = append(retry, o)
		}
	}
	secondPass := []string{}
	if len(retry) > 0 && len(retry) <= 30 {
		for _, o := range retry {
			secondPass = append(secondPass, o.Name)
		}
		cfg2 := *cfg
		cfg2.Timeout = cfg.Timeout * 4
		cfg2.Parallel = 5
		cfg2.FullOnly = true
		first := map[*vc.Obligation]int64{}
		for _, o := range retry {
			first[o] = o.Ms
		}
		vc.SolveAll(retry, &cfg2)
		for _, o := range retry {
			o.Ms += first[o]
		}
	}

	findings := loadFindings()
	isKnown := func(p, obl string) *finding {
		for i := range findings {
			f := &findings[i]
			if f.kind == "finding" && f.prop == p && f.obligation == obl {
				return f
			}
		}
		return nil
	}
	propsOf := func(ps []string) []string {
		if *prop == "all" || *prop == "" {
			return ps
		}
		return []string{*prop}
	}
	replayDir := filepath.Join(verifDir, "replay-out", *prop)
	os.RemoveAll(replayDir)
	violations := 0
	var knownObls []string
	bySolver := map[string]int{}
	var solverMs int64
	var samples []any
	discharged := 0
	counted := 0
	for _, o := range obls {
		solverMs += o.Ms
		if o.Passed() {
			bySolver[o.Solver]++
			discharged++
			counted++
			if len(samples) < 12 {
				samples = append(samples, map[string]any{"obligation": o.Name, "goal": o.Desc, "result": o.Result, "solver": o.Solver, "ms": o.Ms})
			}
			if *verbose {
				fmt.Printf("OBLIGATION %s discharged %s(%s) %dms\n", o.Name, o.Result, o.Solver, o.Ms)
			}
			continue
		}
		fmt.Printf("OBLIGATION %s FAILED %s(%s) %dms\n    goal: %s\n", o.Name, o.Result, o.Solver, o.Ms, o.Desc)
		if o.Result != "sat" {
			fmt.Printf("    solver: %s\n", trim(o.Output, 300))
		}
		allKnown := true
		for _, p := range propsOf(o.Props) {
			if f := isKnown(p, o.Name); f != nil {
				fmt.Printf("KNOWN-FINDING: property=%s %s (obligation %s)\n", p, f.text, o.Name)
				continue
			}
			allKnown = false
			os.MkdirAll(replayDir, 0o755)
			rf := &replayFile{Property: p, Obligation: o.Name, Function: o.Func, Pkg: o.Pkg, Goal: o.Desc, Kind: o.Kind,
				Result: o.Result, Solver: o.Solver, SolverOut: trim(o.Output+"\n"+o.Model, 6000)}
			smtPath := filepath.Join(replayDir, sanitizeName(o.Name)+".smt2")
			os.WriteFile(smtPath, []byte(o.SMT), 0o644)
			rf.SMTFile = smtPath
			if o.Result == "sat" {
				rf.Inputs = vc.ExtractInputs(o, cfg)
			}
			path := filepath.Join(replayDir, sanitizeName(o.Name)+".json")
			writeJSON(path, rf)
			reproduced := false
			if !*noReplay {
				rf.Replayed, reproduced = runReplay(*repo, rf, path)
			}
			if !reproduced && o.Result != "sat" {
				rf.Replayed = "no counterexample from the solver (it answered " + o.Result + " on an obligation that is discharged on the pinned tree); " + rf.Replayed
			}
			rf.Note = "failed proof obligation of the contract-based verification; see goal, solver_output and smt_file"
			writeJSON(path, rf)
			violations++
			if reproduced {
				fmt.Printf("    replay: %s\n", rf.Replayed)
				fmt.Printf("VIOLATION property=%s replay=%s\n", p, path)
			} else {
				fmt.Printf("    replay: %s\n", rf.Replayed)
				fmt.Printf("VIOLATION property=%s replay=%s no-failing-input-found\n", p, path)
			}
		}
		if allKnown {
			knownObls = append(knownObls, o.Name)
		} else {
			counted++
		}
	}
	engineReplays := 0
	for i, e := range engineErrs {
		fmt.Println("ENGINE:", e.msg)
		for _, p := range propsOf(e.props) {
			name := fmt.Sprintf("%s.%s#generate", strings.TrimPrefix(e.pkg, vc.ModPath+"/"), e.fn)
			if f := isKnown(p, name); f != nil {
				fmt.Printf("KNOWN-FINDING: property=%s %s (obligation %s)\n", p, f.text, name)
				continue
			}
			os.MkdirAll(replayDir, 0o755)
			path := filepath.Join(replayDir, fmt.Sprintf("engine-%d.json", i))
			erf := &replayFile{Property: p, Obligation: name, Function: e.fn, Pkg: e.pkg, Kind: "generate", EngineErr: e.msg,
				Goal: "all obligations of " + e.fn + " can be generated from the current source", Result: "undischarged",
				Replayed: "no counterexample: obligations could not be generated", Note: "the function left the verified subset or its contract no longer matches the code; the proofs that held on the pinned tree no longer exist"}
			writeJSON(path, erf)
			reproduced := false
			if !*noReplay && engineReplays < 3 {
				// the scenario drivers choose their scenario from the function named in the obligation: run it
				// against the real code so that the report carries a failing history where there is one
				engineReplays++
				var msg string
				msg, reproduced = runReplay(*repo, erf, path)
				if reproduced {
					erf.Replayed = msg
					writeJSON(path, erf)
					fmt.Printf("    replay: %s\n", trim(msg, 500))
				}
			}
			violations++
			counted++
			if reproduced {
				fmt.Printf("VIOLATION property=%s replay=%s\n", p, path)
			} else {
				fmt.Printf("VIOLATION property=%s replay=%s no-failing-input-found\n", p, path)
			}
		}
	}
	wall := time.Since(start).Seconds()
	fmt.Printf("property=%s tier=%s functions=%d obligations=%d discharged=%d known=%d violations=%d wall=%.1fs\n", *prop, *tier, len(eng.FuncsVerified), counted, discharged, len(knownObls), violations, wall)
	if counted == 0 {
		fmt.Println("SELF-CHECK: no obligations were generated for this property (vacuous run)")
		violations++
	}
	if *evidence != "" {
		var exts []string
		for k := range eng.Externals {
			exts = append(exts, k)
		}
		sort.Strings(exts)
		assumptions := eng.SortedAssumptions()
		for _, x := range exts {
			assumptions = append(assumptions, "callee without contract, result unconstrained, may write through slice arguments: "+x)
		}
		assumptions = append(assumptions, fmt.Sprintf("run-time panic sites assumed safe in functions marked maypanic: %d", eng.PanicAssumed))
		assumptions = append(assumptions, standingAssumptions...)
		ev := map[string]any{
			"property_id": *prop, "tier": *tier, "seed": seed, "level": "proof", "wall_s": wall, "violations": violations,
			"coverage": map[string]any{
				"obligations": counted, "discharged": discharged,
				"checker_cmd":  "/verif/bin/govc check -prop " + *prop + " -tier " + *tier + " (VC generation over go/ssa of /repo's working tree; z3 4.8.12, z3 5.1.0 and cvc5 1.0.3 raced per obligation)",
				"trusted_base": trustedBase,
				"samples":      samples,
				"functions_under_contract": eng.FuncsVerified,
				"by_solver":                bySolver,
				"solver_ms_total":          solverMs,
				"known_finding_obligations": knownObls,
				"per_obligation_timeout_s": cfg.Timeout.Seconds(),
				"slowest":                  slowest(obls, 8),
				"second_pass":              secondPass,
			},
			"assumptions": assumptions,
		}
		os.MkdirAll(filepath.Dir(*evidence), 0o755)
		writeJSON(*evidence, ev)
	}
	if violations > 0 {
		return 1
	}
	return 0
}

var trustedBase = []string{
	"GoVC itself: SSA-to-SMT translation, heap-as-field-maps memory model, loop cutting, contract parser (/verif/govc)",
	"golang.org/x/tools go/ssa and go/types v0.29.0 (SSA construction from the working tree)",
	"z3 4.8.12, z3 5.1.0, cvc5 1.0.3 (an 'unsat' answer of any one is accepted in quick; thorough cross-checks all three)",
	"built-in contracts of std-lib / third-party callees (listed under assumptions as 'assumed contract: ...')",
	"Go memory model, sync.Mutex / sync/atomic / channel / context semantics as axiomatised by the engine",
}

var standingAssumptions = []string{
	"integers are modelled exactly (mathematical value followed by the Go type's wrap-around), not as unbounded",
	"slice capacities, offsets and string lengths are below 2^48",
	"explicit panic(...) statements are specified behaviour and are not obligations",
	"what the extraction drops: goroutine scheduling fairness, allocation failure, reflection/unsafe (absent), floating point, map iteration order (arbitrary)",
}

func sanitizeName(name string) string {
	r := strings.NewReplacer("/", "_", "(", "", ")", "", "*", "", "#", "-", "$", "_", " ", "_", "~", "-", ":", "_")
	return r.Replace(name)
}

func writeJSON(path string, v any) {
	data, _ := json.MarshalIndent(v, "", " ")
	os.WriteFile(path, data, 0o644)
}

// isDisciplineObligation: the obligations that together are the data-race argument: every access to a field or
// captured variable happens under its declared protection (lock held, atomic, immutable after construction,
// publication discipline, local monitor), helpers are called with their lock held, locks are not leaked,
// re-entered or held across blocking operations.
func isDisciplineObligation(name string) bool {
	i := strings.Index(name, "#")
	if i < 0 {
		return false
	}
	k := name[i+1:]
	for _, p := range []string{"own.", "call.holds", "lock.", "block.locked", "atomic.incs", "ghost.owned", "ghost.by"} {
		if strings.HasPrefix(k, p) {
			return true
		}
	}
	return false
}

// slowest lists the n obligations that took the most solver time (margin to the timeout, visible per run).
func slowest(obls []*vc.Obligation, n int) []map[string]any {
	cp := append([]*vc.Obligation{}, obls...)
	sort.Slice(cp, func(i, j int) bool { return cp[i].Ms > cp[j].Ms })
	var out []map[string]any
	for i := 0; i < n && i < len(cp); i++ {
		out = append(out, map[string]any{"obligation": cp[i].Name, "ms": cp[i].Ms, "result": cp[i].Result, "solver": cp[i].Solver})
	}
	return out
}
