package main

import (
	"fmt"
	"go/types"
	"os"
	"strings"

	"golang.org/x/tools/go/ssa"

	"govc/internal/vc"
)

func dumpSSA(args []string) int {
	if len(args) < 1 {
		fmt.Println("usage: govc ssa <pkgdir> [funcsubstr]")
		return 2
	}
	eng, err := vc.Load("/repo", []string{args[0]})
	if err != nil {
		fmt.Println(err)
		return 2
	}
	filter := ""
	if len(args) > 1 {
		filter = args[1]
	}
	for path, sp := range eng.SPkgs {
		if !strings.HasSuffix(path, strings.TrimPrefix(args[0], "./")) {
			continue
		}
		var dump func(f *ssa.Function)
		dump = func(f *ssa.Function) {
			if filter == "" || strings.Contains(vc.FuncKey(f), filter) {
				fmt.Printf("### key=%s\n", vc.FuncKey(f))
				f.WriteTo(os.Stdout)
			}
			for _, a := range f.AnonFuncs {
				dump(a)
			}
		}
		for _, m := range sp.Members {
			switch x := m.(type) {
			case *ssa.Function:
				dump(x)
			case *ssa.Type:
				if named, ok := x.Type().(*types.Named); ok {
					for i := 0; i < named.NumMethods(); i++ {
						if f := eng.Prog.FuncValue(named.Method(i)); f != nil {
							dump(f)
						}
					}
				}
			}
		}
		// methods
		for _, key := range []string{} {
			_ = key
		}
	}
	return 0
}
