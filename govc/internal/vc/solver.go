package vc

import (
	"bytes"
	"context"
	"fmt"
	"os"
	"os/exec"
	"path/filepath"
	"strings"
	"sync"
	"time"
)

type SolverCfg struct {
	Timeout  time.Duration
	Solvers  []string // subset of "z3-new","z3","cvc5"
	Dir      string   // where .smt2 files are written
	Parallel int
	All      bool // run all solvers and compare (thorough)
	Grace    time.Duration // thorough: how long the other solvers may run on after the first definite answer
	Seed     int
	FullOnly bool // only the full, pattern-based encoding (second-chance pass)
}

func solverCmd(name, file string, timeout time.Duration, seed int) *exec.Cmd {
	ms := int(timeout / time.Millisecond)
	switch name {
	case "z3-new":
		return exec.Command("z3-new", fmt.Sprintf("-t:%d", ms), fmt.Sprintf("smt.random_seed=%d", seed), file)
	case "z3":
		return exec.Command("z3", fmt.Sprintf("-t:%d", ms), fmt.Sprintf("smt.random_seed=%d", seed), file)
	case "cvc5":
		return exec.Command("cvc5", fmt.Sprintf("--tlimit=%d", ms), fmt.Sprintf("--seed=%d", seed), "--produce-models", file)
	}
	panic("unknown solver " + name)
}

func sanitize(name string) string {
	r := strings.NewReplacer("/", "_", "(", "", ")", "", "*", "", "#", "-", "$", "_", " ", "_", "~", "-", ":", "_", "|", "_", "[", "_", "]", "_")
	return r.Replace(name)
}

type solverAnswer struct {
	solver string
	res    string
	out    string
	ms     int64
}

func runOne(ctx context.Context, solver, file string, timeout time.Duration, seed int) solverAnswer {
	start := time.Now()
	cmd := solverCmd(solver, file, timeout, seed)
	var buf bytes.Buffer
	cmd.Stdout = &buf
	cmd.Stderr = &buf
	if err := cmd.Start(); err != nil {
		return solverAnswer{solver, "error", err.Error(), 0}
	}
	done := make(chan struct{})
	go func() {
		select {
		case <-ctx.Done():
			_ = cmd.Process.Kill()
		case <-done:
		}
	}()
	_ = cmd.Wait()
	close(done)
	out := buf.String()
	first := ""
	for _, ln := range strings.Split(out, "\n") {
		// z3 prints warnings (e.g. a pattern it ignores) before the answer
		if ln = strings.TrimSpace(ln); ln != "" && !strings.HasPrefix(ln, "WARNING") {
			first = ln
			break
		}
	}
	res := "unknown"
	switch first {
	case "sat", "unsat", "unknown":
		res = first
	case "timeout":
		res = "timeout"
	default:
		if strings.Contains(out, "timeout") || ctx.Err() != nil {
			res = "timeout"
		} else if strings.Contains(first, "error") || strings.Contains(out, "(error") {
			res = "error"
		}
	}
	return solverAnswer{solver, res, out, time.Since(start).Milliseconds()}
}

// Solve discharges one obligation: first the proof-oriented encoding; if that gives no definite answer,
// the macro encoding (equivalent, friendlier to model finding) is tried.
func Solve(o *Obligation, cfg *SolverCfg) {
	if o.Static {
		return
	}
	if o.Kind == "vacuity" && cfg.Timeout > 3*time.Second {
		// consistency covers: only a quick UNSAT is informative
		c2 := *cfg
		c2.Timeout = 3 * time.Second
		cfg = &c2
	}
	if cfg.FullOnly {
		solveWith(o, cfg, o.SMT, "")
		return
	}
	if o.SMTFocus != "" && o.Kind != "vacuity" {
		// first a short attempt with every assumption, then the focused variant (a proof from fewer
		// hypotheses is still a proof; a model of the focused variant is not a counterexample)
		c1 := *cfg
		c1.Timeout = cfg.Timeout / 4
		solveWith(o, &c1, o.SMT, "")
		if o.Result == "unsat" || o.Result == "sat" {
			return
		}
		first := *o
		solveWith(o, cfg, o.SMTFocus, ".f")
		o.Ms += first.Ms
		if o.Result == "unsat" {
			o.Encoding = "focused"
			return
		}
		// not proved from the focused hypotheses either: fall through to the full query
		o.Result = ""
	}
	solveWith(o, cfg, o.SMT, "")
	if o.Result == "unsat" || o.Result == "sat" || o.Kind == "vacuity" {
		return
	}
	if !strings.HasPrefix(o.SMT, Prelude) {
		return
	}
	first := *o
	alt := PreludeMacro + o.SMT[len(Prelude):]
	solveWith(o, cfg, alt, ".m")
	o.Ms += first.Ms
	if o.Result == "unsat" || o.Result == "sat" {
		o.SMT = alt
		o.Encoding = "macro"
		return
	}
	o.Output = first.Output + " || macro encoding: " + o.Output
	if first.Result == "timeout" || o.Result == "timeout" {
		o.Result = "timeout"
	}
}

func solveWith(o *Obligation, cfg *SolverCfg, smt, suffix string) {
	file := filepath.Join(cfg.Dir, sanitize(o.Name)+suffix+".smt2")
	_ = os.WriteFile(file, []byte(smt), 0o644)
	ctx, cancel := context.WithTimeout(context.Background(), cfg.Timeout+2*time.Second)
	defer cancel()
	ch := make(chan solverAnswer, len(cfg.Solvers))
	for _, s := range cfg.Solvers {
		s := s
		go func() { ch <- runOne(ctx, s, file, cfg.Timeout, cfg.Seed) }()
	}
	var answers []solverAnswer
	var winner *solverAnswer
	for range cfg.Solvers {
		a := <-ch
		answers = append(answers, a)
		if a.res == "sat" || a.res == "unsat" {
			if winner == nil {
				w := a
				winner = &w
				if !cfg.All {
					cancel()
				} else {
					// thorough: the other solvers get a bounded grace period to contradict the answer
					go func() {
						select {
						case <-time.After(cfg.Grace):
							cancel()
						case <-ctx.Done():
						}
					}()
				}
			} else if cfg.All && winner.res != a.res {
				o.Result = "error"
				o.Output = fmt.Sprintf("solver disagreement: %s says %s, %s says %s", winner.solver, winner.res, a.solver, a.res)
				return
			}
		}
	}
	if winner != nil {
		o.Result, o.Solver, o.Ms, o.Output = winner.res, winner.solver, winner.ms, winner.out
		if winner.res == "sat" && o.Kind != "vacuity" {
			// fetch a model from the winning solver
			mfile := filepath.Join(cfg.Dir, sanitize(o.Name)+suffix+".model.smt2")
			_ = os.WriteFile(mfile, []byte(smt+"(get-model)\n"), 0o644)
			ctx2, cancel2 := context.WithTimeout(context.Background(), cfg.Timeout+2*time.Second)
			a := runOne(ctx2, winner.solver, mfile, cfg.Timeout, cfg.Seed)
			cancel2()
			o.Model = a.out
		}
		return
	}
	// no definite answer
	o.Result = "unknown"
	var parts []string
	var ms int64
	for _, a := range answers {
		parts = append(parts, a.solver+":"+a.res+" "+strings.TrimSpace(firstLines(a.out, 3)))
		if a.ms > ms {
			ms = a.ms
		}
		if a.res == "error" {
			o.Result = "error"
		}
	}
	allTimeout := true
	for _, a := range answers {
		if a.res != "timeout" {
			allTimeout = false
		}
	}
	if allTimeout {
		o.Result = "timeout"
	}
	o.Ms = ms
	o.Output = strings.Join(parts, " | ")
}

func firstLines(s string, n int) string {
	ls := strings.Split(s, "\n")
	if len(ls) > n {
		ls = ls[:n]
	}
	return strings.Join(ls, " ")
}

// SolveAll runs all obligations with a worker pool.
func SolveAll(obls []*Obligation, cfg *SolverCfg) {
	var wg sync.WaitGroup
	sem := make(chan struct{}, cfg.Parallel)
	for _, o := range obls {
		o := o
		wg.Add(1)
		sem <- struct{}{}
		go func() {
			defer wg.Done()
			defer func() { <-sem }()
			Solve(o, cfg)
		}()
	}
	wg.Wait()
}

// Passed tells whether the obligation is discharged.
func (o *Obligation) Passed() bool {
	if o.Kind == "vacuity" {
		return o.Result == "sat" || o.Result == "unknown" || o.Result == "timeout"
	}
	return o.Result == "unsat"
}
