package vc

import (
	"context"
	"fmt"
	"go/types"
	"os"
	"path/filepath"
	"strconv"
	"strings"
	"time"

	"golang.org/x/tools/go/ssa"
)

// InputSpec describes how to read one function input out of a solver model.
type InputSpec struct {
	Name   string
	Kind   string // int, bool, ref, bytes, string, strings, struct
	Term   string
	Heap   string      // entry version of the element heap (bytes/strings)
	Fields []InputSpec // struct: scalar fields
}

const maxElems = 96

// inputSpecs builds the model-reading recipe for the parameters of fn.
func (c *VCtx) inputSpecs(fn *ssa.Function, args []Val, entry *State) []InputSpec {
	var out []InputSpec
	for i, p := range fn.Params {
		if i >= len(args) {
			break
		}
		if s, ok := c.inputSpec(p.Name(), p.Type(), args[i], entry, 0); ok {
			out = append(out, s)
		}
	}
	return out
}

func (c *VCtx) inputSpec(name string, t types.Type, v Val, entry *State, depth int) (InputSpec, bool) {
	tm, ok := v.(*Term)
	if !ok {
		return InputSpec{}, false
	}
	switch u := t.Underlying().(type) {
	case *types.Basic:
		switch sortOf(t) {
		case SInt:
			return InputSpec{Name: name, Kind: "int", Term: tm.S}, true
		case SBool:
			return InputSpec{Name: name, Kind: "bool", Term: tm.S}, true
		case SStr:
			return InputSpec{Name: name, Kind: "string", Term: tm.S}, true
		}
	case *types.Slice:
		es := sortOf(u.Elem())
		h := c.heap(entry, elemHeapName(es), ArrSort(SRef, ArrSort(SInt, es)))
		switch es {
		case SInt:
			return InputSpec{Name: name, Kind: "bytes", Term: tm.S, Heap: h.S}, true
		case SStr:
			return InputSpec{Name: name, Kind: "strings", Term: tm.S, Heap: h.S}, true
		}
	case *types.Pointer:
		if stt, ok := u.Elem().Underlying().(*types.Struct); ok && depth == 0 {
			spec := InputSpec{Name: name, Kind: "struct", Term: tm.S}
			for i := 0; i < stt.NumFields(); i++ {
				f := stt.Field(i)
				if _, isTP := f.Type().(*types.TypeParam); isTP {
					continue
				}
				fs := sortOf2(f.Type())
				if fs == SInt || fs == SBool || fs == SRef {
					if isStruct(f.Type()) {
						continue
					}
					if _, isArr := f.Type().Underlying().(*types.Array); isArr {
						continue
					}
					h := c.heap(entry, fieldHeapName(u.Elem(), f.Name()), ArrSort(SRef, fs))
					kind := map[Sort]string{SInt: "int", SBool: "bool", SRef: "ref"}[fs]
					spec.Fields = append(spec.Fields, InputSpec{Name: f.Name(), Kind: kind, Term: Select(h, tm).S})
				}
			}
			return spec, true
		}
		return InputSpec{Name: name, Kind: "ref", Term: tm.S}, true
	case *types.Interface, *types.Signature, *types.Chan, *types.Map:
		return InputSpec{Name: name, Kind: "ref", Term: tm.S}, true
	}
	return InputSpec{}, false
}

func sortOf2(t types.Type) (s Sort) {
	defer func() {
		if r := recover(); r != nil {
			s = ""
		}
	}()
	return sortOf(t)
}

// ---------- s-expression parsing of get-value output ----------

type sx struct {
	atom string
	list []*sx
}

func parseSx(s string) []*sx {
	var stack [][]*sx
	cur := []*sx{}
	i := 0
	for i < len(s) {
		c := s[i]
		switch {
		case c == '(':
			stack = append(stack, cur)
			cur = []*sx{}
			i++
		case c == ')':
			n := &sx{list: cur}
			if n.list == nil {
				n.list = []*sx{}
			}
			if len(stack) == 0 {
				return cur
			}
			cur = append(stack[len(stack)-1], n)
			stack = stack[:len(stack)-1]
			i++
		case c == ' ' || c == '\n' || c == '\t' || c == '\r':
			i++
		case c == '|':
			j := strings.IndexByte(s[i+1:], '|')
			cur = append(cur, &sx{atom: s[i : i+j+2]})
			i += j + 2
		case c == '"':
			j := strings.IndexByte(s[i+1:], '"')
			cur = append(cur, &sx{atom: s[i : i+j+2]})
			i += j + 2
		default:
			j := i
			for j < len(s) && !strings.ContainsRune("() \n\t\r", rune(s[j])) {
				j++
			}
			cur = append(cur, &sx{atom: s[i:j]})
			i = j
		}
	}
	return cur
}

func (x *sx) String() string {
	if x.list == nil {
		return x.atom
	}
	var ps []string
	for _, e := range x.list {
		ps = append(ps, e.String())
	}
	return "(" + strings.Join(ps, " ") + ")"
}

func sxInt(x *sx) (int64, bool) {
	if x.list == nil {
		n, err := strconv.ParseInt(x.atom, 10, 64)
		return n, err == nil
	}
	if len(x.list) == 2 && x.list[0].atom == "-" {
		n, ok := sxInt(x.list[1])
		return -n, ok
	}
	return 0, false
}

// getValues runs the solver on smt + (get-value terms) and returns term-string -> value.
func getValues(solver, smt string, terms []string, dir, tag string, timeout time.Duration) (map[string]*sx, string) {
	if len(terms) == 0 {
		return map[string]*sx{}, "sat"
	}
	file := filepath.Join(dir, tag+".q.smt2")
	body := smt + "(get-value (" + strings.Join(terms, " ") + "))\n"
	_ = os.WriteFile(file, []byte(body), 0o644)
	ctx, cancel := context.WithTimeout(context.Background(), timeout+2*time.Second)
	defer cancel()
	a := runOne(ctx, solver, file, timeout, 0)
	if a.res != "sat" {
		return nil, a.res
	}
	rest := a.out[strings.Index(a.out, "\n")+1:]
	parsed := parseSx(rest)
	out := map[string]*sx{}
	if len(parsed) == 0 {
		return out, "sat"
	}
	for i, pair := range parsed[0].list {
		if len(pair.list) == 2 && i < len(terms) {
			out[terms[i]] = pair.list[1]
		}
	}
	return out, "sat"
}

// ExtractInputs turns the model of a failed obligation into concrete inputs (JSON-able).
// It first tries to find a small model (short slices/strings) so that it can be replayed.
func ExtractInputs(o *Obligation, cfg *SolverCfg) map[string]any {
	if o.Result != "sat" || len(o.Inputs) == 0 {
		return nil
	}
	base := strings.TrimSuffix(strings.TrimSpace(o.SMT), "(check-sat)")
	// size limits
	var limits []string
	for _, in := range o.Inputs {
		switch in.Kind {
		case "bytes", "strings":
			limits = append(limits, fmt.Sprintf("(assert (<= (s-len %s) %d))", in.Term, maxElems))
		case "string":
			limits = append(limits, fmt.Sprintf("(assert (<= (slen %s) %d))", in.Term, maxElems))
		}
	}
	solvers := []string{o.Solver, "z3-new", "z3"}
	smt := base + strings.Join(limits, "\n") + "\n(check-sat)\n"
	// round 1: scalars and lengths
	var terms []string
	add := func(t string) { terms = append(terms, t) }
	for _, in := range o.Inputs {
		switch in.Kind {
		case "int", "bool", "ref":
			add(in.Term)
		case "bytes", "strings":
			add("(s-len " + in.Term + ")")
			add("(s-cap " + in.Term + ")")
			add("(= (s-arr " + in.Term + ") null)")
			for i := 0; i < maxElems; i++ {
				el := fmt.Sprintf("(select (select %s (s-arr %s)) (+ (s-off %s) %d))", in.Heap, in.Term, in.Term, i)
				if in.Kind == "bytes" {
					add(el)
				} else {
					add("(slen " + el + ")")
				}
			}
		case "string":
			add("(slen " + in.Term + ")")
			for i := 0; i < maxElems; i++ {
				add(fmt.Sprintf("(select (str-data %s) %d)", in.Term, i))
			}
		case "struct":
			add("(= " + in.Term + " null)")
			for _, f := range in.Fields {
				add(f.Term)
			}
		}
	}
	var vals map[string]*sx
	used := ""
	for _, variant := range []string{smt, base + "\n(check-sat)\n"} {
		for _, s := range solvers {
			if s == "" || s == "cvc5" {
				continue
			}
			v, res := getValues(s, variant, terms, cfg.Dir, sanitize(o.Name), cfg.Timeout)
			if res == "sat" && v != nil {
				vals, used = v, s
				break
			}
		}
		if vals != nil {
			break
		}
		limits = nil
	}
	if vals == nil {
		return nil
	}
	_ = used
	out := map[string]any{}
	conv := func(kind string, x *sx) any {
		if x == nil {
			return nil
		}
		switch kind {
		case "int":
			n, _ := sxInt(x)
			return n
		case "bool":
			return x.atom == "true"
		case "ref":
			if x.atom == "null" {
				return "nil"
			}
			return x.String()
		}
		return x.String()
	}
	var strTerms []string
	type strReq struct {
		in  InputSpec
		idx int
		ln  int64
	}
	var strReqs []strReq
	for _, in := range o.Inputs {
		switch in.Kind {
		case "int", "bool", "ref":
			out[in.Name] = conv(in.Kind, vals[in.Term])
		case "bytes":
			ln, _ := sxInt(vals["(s-len "+in.Term+")"])
			cp, _ := sxInt(vals["(s-cap "+in.Term+")"])
			isnil := vals["(= (s-arr "+in.Term+") null)"]
			var elems []int64
			for i := int64(0); i < ln && i < maxElems; i++ {
				el := fmt.Sprintf("(select (select %s (s-arr %s)) (+ (s-off %s) %d))", in.Heap, in.Term, in.Term, i)
				n, _ := sxInt(vals[el])
				elems = append(elems, ((n%256)+256)%256)
			}
			if elems == nil {
				elems = []int64{}
			}
			out[in.Name] = map[string]any{"len": ln, "cap": cp, "nil": isnil != nil && isnil.atom == "true", "elems": elems}
		case "string":
			ln, _ := sxInt(vals["(slen "+in.Term+")"])
			var bs []int64
			for i := int64(0); i < ln && i < maxElems; i++ {
				n, _ := sxInt(vals[fmt.Sprintf("(select (str-data %s) %d)", in.Term, i)])
				bs = append(bs, ((n%256)+256)%256)
			}
			if bs == nil {
				bs = []int64{}
			}
			out[in.Name] = map[string]any{"len": ln, "bytes": bs}
		case "strings":
			ln, _ := sxInt(vals["(s-len "+in.Term+")"])
			for i := int64(0); i < ln && i < maxElems; i++ {
				el := fmt.Sprintf("(select (select %s (s-arr %s)) (+ (s-off %s) %d))", in.Heap, in.Term, in.Term, i)
				sl, _ := sxInt(vals["(slen "+el+")"])
				strReqs = append(strReqs, strReq{in, int(i), sl})
				for j := int64(0); j < sl && j < maxElems; j++ {
					strTerms = append(strTerms, fmt.Sprintf("(select (str-data %s) %d)", el, j))
				}
			}
			out[in.Name] = map[string]any{"len": ln}
		case "struct":
			m := map[string]any{}
			isnil := vals["(= "+in.Term+" null)"]
			m["nil"] = isnil != nil && isnil.atom == "true"
			for _, f := range in.Fields {
				m[f.Name] = conv(f.Kind, vals[f.Term])
			}
			out[in.Name] = m
		}
	}
	if len(strReqs) > 0 {
		// pin the lengths found, then read the bytes of each string element
		var pins []string
		for _, r := range strReqs {
			el := fmt.Sprintf("(select (select %s (s-arr %s)) (+ (s-off %s) %d))", r.in.Heap, r.in.Term, r.in.Term, r.idx)
			pins = append(pins, fmt.Sprintf("(assert (= (slen %s) %d))", el, r.ln))
		}
		for _, in := range o.Inputs {
			if in.Kind == "strings" {
				m := out[in.Name].(map[string]any)
				pins = append(pins, fmt.Sprintf("(assert (= (s-len %s) %d))", in.Term, m["len"].(int64)))
			}
		}
		smt2 := base + strings.Join(limits, "\n") + "\n" + strings.Join(pins, "\n") + "\n(check-sat)\n"
		v2, res := getValues(used, smt2, strTerms, cfg.Dir, sanitize(o.Name)+".s", cfg.Timeout)
		if res != "sat" {
			return nil
		}
		per := map[string][]any{}
		for _, r := range strReqs {
			el := fmt.Sprintf("(select (select %s (s-arr %s)) (+ (s-off %s) %d))", r.in.Heap, r.in.Term, r.in.Term, r.idx)
			bs := []int64{}
			for j := int64(0); j < r.ln && j < maxElems; j++ {
				n, _ := sxInt(v2[fmt.Sprintf("(select (str-data %s) %d)", el, j)])
				bs = append(bs, ((n%256)+256)%256)
			}
			per[r.in.Name] = append(per[r.in.Name], bs)
		}
		for name, l := range per {
			out[name].(map[string]any)["elems"] = l
		}
	}
	return out
}
