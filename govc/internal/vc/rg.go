package vc

import (
	"go/token"
	"fmt"
	"go/types"
	"sort"
	"strings"

	"golang.org/x/tools/go/ssa"
)

// Rely/guarantee layer for state that is shared without a lock: sync/atomic cells and package-level
// ghost maps. See DESIGN.md 1.4.
//
//   - an atomic cell allocated by the function under verification is *local* until the function ends
//     (it is captured only by closures that are returned or run synchronously); all other cells are shared;
//   - at every observation point (lock acquisition, atomic operation on a shared cell, select/receive,
//     ctx.Err, callback) the shared atomic cells and the shared ghost maps are havocked; what is assumed
//     about the new values are the package's global invariants (ginv), its two-state guarantees (gtrans,
//     the rely) and the per-kind rules of ghost maps (owned / once);
//   - after every atomic operation and at every unlock the ginv and gtrans clauses are proved (guarantee);
//   - an atomic operation inside a critical section must be on a local cell (this is the premise of the
//     reduction argument that lets critical sections be treated as atomic with respect to atomic operations).

type ghostMapInfo struct {
	pkg   string
	name  string
	heap  string
	sort  Sort
	kind  string // shared, owned, once, local, by
	token string // kind by: name of the owned map whose holder may change the entry
	zero  string
}

func (c *VCtx) relevantPkgs() []string {
	if c.relPkgs != nil {
		return c.relPkgs
	}
	seen := map[string]bool{}
	var out []string
	var visit func(path string)
	visit = func(path string) {
		if seen[path] {
			return
		}
		seen[path] = true
		if c.eng.Specs[path] != nil {
			out = append(out, path)
		}
		if tp := c.eng.TPkgs[path]; tp != nil {
			for ip := range tp.Imports {
				if strings.HasPrefix(ip, ModPath) {
					visit(ip)
				}
			}
		}
	}
	if c.top != nil {
		visit(fnPkgPath(c.top))
	}
	sort.Strings(out)
	c.relPkgs = out
	return out
}

func (c *VCtx) ghostMaps() []*ghostMapInfo {
	if c.gmaps != nil {
		return c.gmaps
	}
	c.gmaps = []*ghostMapInfo{}
	for _, pkg := range c.relevantPkgs() {
		ps := c.eng.Specs[pkg]
		for _, g := range ps.Ghosts {
			ty := g.Type
			kind := "shared"
			for _, k := range []string{"owned", "once", "shared", "local"} {
				if strings.HasSuffix(ty, " "+k) {
					kind = k
					ty = strings.TrimSpace(strings.TrimSuffix(ty, " "+k))
				}
			}
			token := ""
			if i := strings.Index(ty, " by "); i > 0 {
				// "K -> V by <owned map>": an entry may be changed only by the holder of the token for the same key
				kind, token = "by", strings.TrimSpace(ty[i+4:])
				ty = strings.TrimSpace(ty[:i])
			}
			k, v, ok := strings.Cut(ty, "->")
			if !ok {
				unsup("ghostmap %s needs K -> V", g.Name)
			}
			sc := &Scope{c: c, pkg: pkg}
			ks, _ := c.specSort(sc, strings.TrimSpace(k))
			vs, _ := c.specSort(sc, strings.TrimSpace(v))
			zero := "null"
			switch vs {
			case SInt:
				zero = "0"
			case SBool:
				zero = "false"
			case SAny:
				zero = "zero_Any"
			}
			gi := &ghostMapInfo{pkg: pkg, name: g.Name, heap: "G:" + shortPkg(pkg) + "." + g.Name, sort: ArrSort(ks, vs), kind: kind, zero: zero, token: token}
			c.gmaps = append(c.gmaps, gi)
			c.heapSorts[gi.heap] = gi.sort
		}
	}
	return c.gmaps
}

func (c *VCtx) ghostMapByName(name string) *ghostMapInfo {
	for _, g := range c.ghostMaps() {
		if g.name == name {
			return g
		}
	}
	return nil
}

// freshGhost: ghost maps hold their zero value at objects that do not exist yet.
func (c *VCtx) freshGhost(st *State, r *Term) {
	for _, g := range c.ghostMaps() {
		k, _ := arrParts(g.sort)
		if k != SRef {
			continue
		}
		h := c.heap(st, g.heap, g.sort)
		c.fact(T(SBool, fmt.Sprintf("(= (select %s %s) %s)", h.S, r.S, g.zero)))
	}
}

func isAtomicHeap(h string) bool { return strings.HasPrefix(h, "F:sync/atomic.") && strings.HasSuffix(h, ".v") }

// sharedHavoc: other threads may have performed any number of atomic actions.
func (c *VCtx) sharedHavoc(st *State, before *State) {
	if c.top == nil {
		return
	}
	if len(c.globalClauses()) == 0 && len(c.ghostMaps()) == 0 && !c.usesAtomics && !c.hasVolatile() && len(c.pubCells) == 0 {
		return
	}
	// atomic cells: everything except the local ones
	var names []string
	for h := range c.heapSorts {
		if isAtomicHeap(h) {
			names = append(names, h)
		}
	}
	sort.Strings(names)
	for _, h := range names {
		old := c.heap(st, h, c.heapSorts[h])
		nw := c.fresh("H!"+h, c.heapSorts[h])
		cur := nw
		var locals []string
		for t := range c.localAtomics {
			locals = append(locals, t)
		}
		sort.Strings(locals)
		for _, t := range locals {
			tt := T(SRef, t)
			cur = Store(cur, tt, Select(old, tt))
		}
		st.heaps[h] = c.name("h", cur)
	}
	// fields declared volatile / published: written without a lock by whoever holds the token
	for _, pkg := range c.relevantPkgs() {
		ps := c.eng.Specs[pkg]
		var tn []string
		for n := range ps.Objects {
			tn = append(tn, n)
		}
		sort.Strings(tn)
		for _, n := range tn {
			sp := ps.Objects[n]
			obj := c.eng.TPkgs[pkg].Types.Scope().Lookup(n)
			if obj == nil {
				continue
			}
			stt, ok := obj.Type().Underlying().(*types.Struct)
			if !ok {
				continue
			}
			for _, f := range append(append([]string{}, sp.Volatile...), sp.Published...) {
				for i := 0; i < stt.NumFields(); i++ {
					if stt.Field(i).Name() == f {
						hn := fieldHeapName(obj.Type(), f)
						c.heapSorts[hn] = ArrSort(SRef, sortOf(stt.Field(i).Type()))
						old := c.heap(st, hn, c.heapSorts[hn])
						nw := c.fresh("H!"+hn, c.heapSorts[hn])
						c.heapWellFormed(st, hn, nw)
						cur := nw
						for _, r := range c.freshObjs {
							if !c.isPublished(r) {
								cur = Store(cur, r, Select(old, r))
							}
						}
						st.heaps[hn] = c.name("h", cur)
					}
				}
			}
		}
	}
	// captured variables under the publication discipline: written by whoever holds the token
	if len(c.pubCells) > 0 {
		var ks []string
		for k := range c.pubCells {
			ks = append(ks, k)
		}
		sort.Strings(ks)
		for _, k := range ks {
			l := c.pubCells[k]
			h := c.heap(st, l.Heap, ArrSort(SRef, l.Sort))
			nv := c.fresh("pubv", l.Sort)
			c.wfValue(st, nv)
			st.heaps[l.Heap] = c.name("h", Store(h, l.Base, nv))
			delete(st.cells, l.Base.S)
		}
	}
	// ghost maps
	for _, g := range c.ghostMaps() {
		if g.kind == "local" {
			continue // thread-local ghost: nobody else writes it
		}
		old := c.heap(st, g.heap, g.sort)
		nw := c.fresh("H!"+g.heap, g.sort)
		c.heapWellFormed(st, g.heap, nw)
		ks, _ := arrParts(g.sort)
		switch g.kind {
		case "owned":
			// entries equal to my invocation id are exactly the ones I hold, before and after
			c.linkFact(T(SBool, fmt.Sprintf("(forall ((k %s)) (! (= (= (select %s k) me) (= (select %s k) me)) :pattern ((select %s k))))", ks, old.S, nw.S, nw.S)))
		case "once":
			c.linkFact(T(SBool, fmt.Sprintf("(forall ((k %s)) (! (=> (not (= (select %s k) %s)) (= (select %s k) (select %s k))) :pattern ((select %s k)) :pattern ((select %s k))))", ks, old.S, g.zero, nw.S, old.S, nw.S, old.S)))
		case "by":
			// entries whose token this invocation holds cannot have been changed by anybody else
			if tk := c.ghostMapByName(g.token); tk != nil {
				tokOld := c.heap(before, tk.heap, tk.sort)
				c.linkFact(T(SBool, fmt.Sprintf("(forall ((k %s)) (! (=> (= (select %s k) me) (= (select %s k) (select %s k))) :pattern ((select %s k))))", ks, tokOld.S, nw.S, old.S, nw.S)))
			}
		}
		// nobody else can make a ghost map refer to something that this call has created and not published yet
		if _, vs := arrParts(g.sort); vs == SRef && g.kind != "owned" {
			if mine := c.mineSet(); mine != nil {
				c.linkFact(T(SBool, fmt.Sprintf("(forall ((k %s)) (! (=> (select %s (select %s k)) (= (select %s k) (select %s k))) :pattern ((select %s k))))", ks, mine.S, nw.S, nw.S, old.S, nw.S)))
			}
		}
		// nobody else knows the cells that are still local to this call
		cur := nw
		if ks == SRef {
			var locals []string
			for t := range c.localAtomics {
				locals = append(locals, t)
			}
			sort.Strings(locals)
			for _, t := range locals {
				tt := T(SRef, t)
				cur = Store(cur, tt, Select(old, tt))
			}
			// nor the objects and channels it has created and not yet made reachable
			for _, r := range c.freshKeys {
				if !c.isPublished(r) && !c.localAtomics[r.S] {
					cur = Store(cur, r, Select(old, r))
				}
			}
		}
		st.heaps[g.heap] = c.name("h", cur)
	}
	// outside critical sections the guarded state of all monitors of the relevant packages may have changed
	// (only global invariants can talk about guarded state outside a critical section)
	if len(st.held) == 0 && c.hasGinv() {
		for _, pkg := range c.relevantPkgs() {
			ps := c.eng.Specs[pkg]
			var tn []string
			for n := range ps.Objects {
				tn = append(tn, n)
			}
			sort.Strings(tn)
			for _, n := range tn {
				sp := ps.Objects[n]
				if sp.Mode == "sequential" || sp.Locals {
					continue
				}
				obj := c.eng.TPkgs[pkg].Types.Scope().Lookup(n)
				if obj == nil {
					continue
				}
				own, whole := c.guardedHeaps(sp, obj.Type())
				for _, hn := range append(own, whole...) {
					if _, isAlloc := st.heaps[hn]; isAlloc || true {
						c.havocHeap(st, hn)
					}
				}
			}
		}
	}
	c.assumeGlobal(st, before)
}

type globalClause struct {
	pkg   string
	cl    *Clause
	trans bool
	step  bool // per-action guarantee: proved only
}

func (c *VCtx) globalClauses() []globalClause {
	var out []globalClause
	for _, pkg := range c.relevantPkgs() {
		ps := c.eng.Specs[pkg]
		for _, g := range ps.Ginvs {
			out = append(out, globalClause{pkg, g, false, false})
		}
		for _, g := range ps.Gtrans {
			out = append(out, globalClause{pkg, g, true, false})
		}
	}
	return out
}

// stepClauses: the per-action guarantees (gstep) of the relevant packages.
func (c *VCtx) stepClauses() []globalClause {
	var out []globalClause
	for _, pkg := range c.relevantPkgs() {
		for _, g := range c.eng.Specs[pkg].Gsteps {
			out = append(out, globalClause{pkg, g, true, true})
		}
	}
	return out
}

func (c *VCtx) hasGinv() bool {
	for _, g := range c.globalClauses() {
		if !g.trans {
			return true
		}
	}
	return false
}

// seqObject: is the cell part of an object verified in sequential mode (no interference)?
func (c *VCtx) seqObject(t *Term) bool {
	info := c.embedded[t.S]
	if info == nil {
		return false
	}
	for _, lk := range info.chain {
		if sp := c.objectSpec(lk.typ); sp != nil && sp.Mode == "sequential" {
			return true
		}
	}
	return false
}

func (c *VCtx) globalScope(pkg string, st, old *State) *Scope {
	sc := &Scope{c: c, vars: map[string]Val{}, st: st, old: old, pkg: pkg}
	if c.me != nil {
		sc.vars["me"] = c.me
	}
	return sc
}

// assumeGlobal: the global invariants hold now; the step from before to now satisfied the rely.
// Outside critical sections the monitor invariants of all objects hold as well.
func (c *VCtx) assumeGlobal(st, before *State) {
	for _, g := range c.globalClauses() {
		if g.trans && before == nil {
			continue
		}
		c.factG(st.pc, c.translateBool(c.globalScope(g.pkg, st, before), g.cl.E))
	}
	if len(st.held) == 0 && c.hasGinv() {
		for _, pkg := range c.relevantPkgs() {
			ps := c.eng.Specs[pkg]
			var tn []string
			for n := range ps.Objects {
				tn = append(tn, n)
			}
			sort.Strings(tn)
			for _, n := range tn {
				sp := ps.Objects[n]
				if sp.Mode == "sequential" || sp.Locals || len(sp.Invs) == 0 {
					continue
				}
				obj := c.eng.TPkgs[pkg].Types.Scope().Lookup(n)
				if obj == nil {
					continue
				}
				pt := types.NewPointer(obj.Type())
				for _, inv := range sp.Invs {
					sc := c.globalScope(pkg, st, st)
					x := TG(SRef, pt, "q!this")
					sc.vars["this"] = x
					body := c.translateBool(sc, inv.E)
					c.factG(st.pc, T(SBool, fmt.Sprintf("(forall ((q!this Ref)) (=> (not (= q!this null)) %s))", body.S)))
				}
			}
		}
	}
}

// assertGlobal proves the guarantee: ginv hold now, gtrans hold for the step from before to now.
func (c *VCtx) assertGlobal(st, before *State, tag string) {
	ownPkg := ""
	if c.top != nil {
		ownPkg = fnPkgPath(c.top)
	}
	for i, g := range append(c.globalClauses(), c.stepClauses()...) {
		if ownPkg != "" && g.pkg != ownPkg {
			// the global clauses of an imported package talk about state private to that package (unexported
			// fields, its ghost maps): only that package's own actions are checked against them
			c.eng.assume("global invariants of imported packages are affected only by those packages' own (verified) actions")
			continue
		}
		kind := "ginv"
		if g.trans {
			kind = "gtrans"
			if g.step {
				kind = "gstep"
			}
			if before == nil {
				continue
			}
		}
		c.exemptFresh = nil
		if q, ok := g.cl.E.(*EQuant); ok && q.Forall && tag != "exit" {
			for _, r := range c.freshObjs {
				if !c.isPublished(r) {
					c.exemptFresh = append(c.exemptFresh, r)
				}
			}
		}
		goal := c.translateBool(c.globalScope(g.pkg, st, before), g.cl.E)
		c.exemptFresh = nil
		name := tag
		if j := strings.Index(tag, " ["); j > 0 {
			name = tag[:j] // (the bracketed part is for the description only)
		}
		c.proveP(c.pkgProps(g.pkg), fmt.Sprintf("%s.%s.%s", name, kind, clauseLabel(g.cl, i)),
			fmt.Sprintf("global %s of %s after %s: %s", map[bool]string{false: "invariant", true: "two-state guarantee"}[g.trans], shortPkg(g.pkg), tag, g.cl.Src), st.pc, goal)
	}
}

func (c *VCtx) pkgProps(pkg string) []string {
	seen := map[string]bool{}
	var out []string
	if ps := c.eng.Specs[pkg]; ps != nil {
		for _, o := range ps.Objects {
			for _, p := range o.Props {
				if !seen[p] && p != "C13" {
					seen[p] = true
					out = append(out, p)
				}
			}
		}
	}
	sort.Strings(out)
	return out
}

// atomicHook is called before (pre=true) and after an atomic operation on location l.
func (c *VCtx) atomicHook(fr *Frame, st *State, l *Loc, pre bool) {
	c.usesAtomics = true
	if fr == nil {
		fr = c.curFrame
	}
	local := c.localAtomics[l.Base.S] || c.seqObject(l.Base)
	if pre {
		c.atomicBefore = nil
		if local {
			return
		}
		if len(st.held) > 0 && c.contract != nil && len(c.contract.Props) == 1 && c.contract.Props[0] == "C13" {
			// a function under contract for the lock discipline only: an atomic operation inside a critical
			// section is race-free by itself; nothing functional is claimed about the section
			return
		}
		if len(st.held) > 0 && c.contract != nil && c.contract.Opts["atomic-in-cs"] != "" {
			// "opt atomic-in-cs = <field>": the function operates on an atomic latch inside a critical section; no
			// clause of the package mentions that cell, so the operation is not an observation point of the proof
			c.eng.assume("atomic cell " + c.contract.Opts["atomic-in-cs"] + " is a latch no contract clause mentions: operations on it inside a critical section are not observation points")
			return
		}
		if len(st.held) > 0 {
			c.staticObl("atomic.incs", "atomic operation inside a critical section is on a cell local to this call", false,
				"atomic operation on a shared cell while holding "+heldNames(st)+" (critical sections could not be treated as atomic)")
			return
		}
		before := st.clone()
		c.observeWith(st, before)
		c.atomicBefore = st.clone()
		return
	}
	// post
	c.atomicCount++
	if fr != nil && fr.contract != nil {
		n := c.atomicOrdinal(fr)
		c.runGhost(fr, st, fr.contract, fmt.Sprintf("atomic %d", n), map[string]Val{"ret": c.lastAtomicRet})
		if fr.contract.Asserts != nil && c.atomicBefore != nil {
			c.assertOld, c.assertExtra = c.atomicBefore, map[string]Val{"ret": c.lastAtomicRet}
			c.pointAsserts(fr, st, fmt.Sprintf("atomic %d", n), token.NoPos)
			c.assertOld, c.assertExtra = nil, nil
		}
	}
	if local && len(st.held) > 0 {
		return // part of the enclosing critical section: checked at unlock
	}
	if len(c.globalClauses()) > 0 {
		c.assertGlobal(st, c.atomicBefore, fmt.Sprintf("atomic%d", c.atomicCount))
	}
}

// atomicOrdinal: 1-based ordinal (source order) of the atomic call being executed in fr.fn.
func (c *VCtx) atomicOrdinal(fr *Frame) int {
	var cur ssa.Instruction
	if fr.curBlock != nil && fr.curIdx < len(fr.curBlock.Instrs) {
		cur = fr.curBlock.Instrs[fr.curIdx]
	}
	if cur == nil {
		return 0
	}
	n := 1
	for _, b := range fr.fn.Blocks {
		for _, in := range b.Instrs {
			ci, ok := in.(ssa.CallInstruction)
			if !ok || in == cur {
				continue
			}
			if callee := ci.Common().StaticCallee(); callee != nil && strings.HasPrefix(callee.String(), "(*sync/atomic.") && in.Pos() < cur.Pos() {
				n++
			}
		}
	}
	return n
}

// freshObjectGhost: no ghost map refers to an object that did not exist before (for monitor objects and the
// monitor objects embedded in them): needed to establish quantified invariants of a new object.
func (c *VCtx) freshObjectGhost(st *State, r *Term, t types.Type) {
	if c.top == nil {
		return
	}
	stt, ok := t.Underlying().(*types.Struct)
	if !ok {
		return
	}
	if c.objectSpec(t) != nil {
		c.freshObjs = append(c.freshObjs, r)
		c.noGhostRefs(st, r)
	}
	for i := 0; i < stt.NumFields(); i++ {
		f := stt.Field(i)
		if _, isTP := f.Type().(*types.TypeParam); !isTP && isStruct(f.Type()) {
			if n, ok := f.Type().(*types.Named); ok && n.Obj().Pkg() != nil && strings.HasPrefix(n.Obj().Pkg().Path(), ModPath) {
				c.freshObjectGhost(st, c.embedAddr(r, t, f.Name(), f.Type()), f.Type())
			}
		}
	}
}

// mineSet: a set containing (at least) the objects, channels and variables this invocation has created and not yet
// made reachable for anybody else (recomputed at every observation point).
func (c *VCtx) mineSet() *Term {
	if c.mineCache != nil && c.mineCacheN == len(c.freshKeys)+len(c.published)+len(c.freshObjs) {
		return c.mineCache
	}
	var priv []*Term
	for _, r := range c.freshKeys {
		if !c.isPublished(r) {
			priv = append(priv, r)
		}
	}
	for _, r := range c.freshObjs {
		// (includes the monitor objects embedded in a new object)
		if !c.isPublished(r) {
			priv = append(priv, r)
		}
	}
	if len(priv) == 0 {
		return nil
	}
	m := c.fresh("mine", ArrSort(SRef, SBool))
	for _, r := range priv {
		c.fact(Select(m, r))
	}
	c.mineCache, c.mineCacheN = m, len(c.freshKeys)+len(c.published)+len(c.freshObjs)
	return m
}

func (c *VCtx) hasVolatile() bool {
	for _, pkg := range c.relevantPkgs() {
		for _, sp := range c.eng.Specs[pkg].Objects {
			if len(sp.Volatile)+len(sp.Published) > 0 {
				return true
			}
		}
	}
	return false
}

// noGhostRefs: no entry of a reference-valued ghost map is r (r is not reachable by anybody who could have set one).
func (c *VCtx) noGhostRefs(st *State, r *Term) {
	for _, g := range c.ghostMaps() {
		ks, vs := arrParts(g.sort)
		if vs != SRef {
			continue
		}
		h := c.heap(st, g.heap, g.sort)
		c.fact(T(SBool, fmt.Sprintf("(forall ((k %s)) (! (not (= (select %s k) %s)) :pattern ((select %s k))))", ks, h.S, r.S, h.S)))
	}
}
