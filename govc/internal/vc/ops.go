package vc

import (
	"fmt"
	"go/token"
	"go/types"

	"golang.org/x/tools/go/ssa"
)

func (c *VCtx) binop(fr *Frame, st *State, x *ssa.BinOp) Val {
	a := fr.eval(x.X)
	b := fr.eval(x.Y)
	// comparisons on any sort
	switch x.Op {
	case token.EQL, token.NEQ:
		var eq *Term
		ta, tb := c.cmpTerm(a), c.cmpTerm(b)
		switch {
		case ta.Sort == SSlice || tb.Sort == SSlice:
			// only comparison with nil is legal
			if ta.S == "nil_slice" || ta.S == "null" {
				eq = Eq(SlArr(tb), Null)
			} else {
				eq = Eq(SlArr(ta), Null)
			}
		case ta.Sort == SStr:
			eq = c.strEq(ta, tb)
		default:
			eq = Eq(ta, tb)
		}
		if x.Op == token.NEQ {
			return Not(eq)
		}
		return eq
	}
	ta, tb := c.asTerm(a), c.asTerm(b)
	ty := x.Type()
	switch ta.Sort {
	case SBool:
		switch x.Op {
		case token.LAND, token.AND:
			return And(ta, tb)
		case token.LOR, token.OR:
			return Or(ta, tb)
		}
	case SInt:
		var r *Term
		switch x.Op {
		case token.ADD:
			r = wrap(Add(ta, tb), ty)
		case token.SUB:
			r = wrap(Sub(ta, tb), ty)
		case token.MUL:
			r = wrap(Mul(ta, tb), ty)
		case token.QUO:
			c.safety(fr, st, "divzero", Not(Eq(tb, IntLit(0))), x.Pos())
			r = wrap(T(SInt, app("godiv", ta, tb)), ty)
		case token.REM:
			c.safety(fr, st, "divzero", Not(Eq(tb, IntLit(0))), x.Pos())
			r = T(SInt, app("gorem", ta, tb))
		case token.LSS:
			return Lt(ta, tb)
		case token.LEQ:
			return Le(ta, tb)
		case token.GTR:
			return Gt(ta, tb)
		case token.GEQ:
			return Ge(ta, tb)
		case token.SHL:
			c.safety(fr, st, "negshift", Ge(tb, IntLit(0)), x.Pos())
			r = wrap(Mul(ta, T(SInt, app("pow2", tb))), ty)
			bits, _, _ := intInfo(ty)
			r = Ite(Ge(tb, IntLit(int64(bits))), IntLit(0), r)
		case token.SHR:
			c.safety(fr, st, "negshift", Ge(tb, IntLit(0)), x.Pos())
			r = T(SInt, app("shr", ta, tb))
		case token.AND:
			// x & (2^k-1) for constant masks
			if k, ok := x.Y.(*ssa.Const); ok {
				if m, ok2 := maskBits(k); ok2 {
					r = T(SInt, fmt.Sprintf("(mod %s %s)", ta.S, pow2str(m)))
					break
				}
			}
			fn := c.declareFun("bitand", []Sort{SInt, SInt}, SInt)
			r = T(SInt, fmt.Sprintf("(%s %s %s)", fn, ta.S, tb.S))
			c.eng.assume("bitwise & on non-mask operands is an uninterpreted function")
		case token.OR, token.XOR, token.AND_NOT:
			fn := c.declareFun("bitop!"+x.Op.String(), []Sort{SInt, SInt}, SInt)
			r = T(SInt, fmt.Sprintf("(%s %s %s)", fn, ta.S, tb.S))
			c.eng.assume("bitwise " + x.Op.String() + " is an uninterpreted function")
		}
		if r != nil {
			r.GT = ty
			return c.name("t", r)
		}
	case SStr:
		if x.Op == token.ADD {
			return c.strConcat(ta, tb)
		}
	}
	unsup("binop %s on sort %s", x.Op, ta.Sort)
	return nil
}

func maskBits(k *ssa.Const) (int, bool) {
	if k.Value == nil {
		return 0, false
	}
	v, ok := constInt64(k)
	if !ok || v <= 0 {
		return 0, false
	}
	n := 0
	for v&1 == 1 {
		v >>= 1
		n++
	}
	if v != 0 {
		return 0, false
	}
	return n, true
}

func constInt64(k *ssa.Const) (int64, bool) {
	if k.Value == nil {
		return 0, true
	}
	return k.Int64(), true
}

// cmpTerm is asTerm, except that untyped nil adapts.
func (c *VCtx) cmpTerm(v Val) *Term {
	return c.asTerm(v)
}

func (c *VCtx) strEq(a, b *Term) *Term {
	// equal length and equal bytes below the length
	fn := sym("streq")
	return T(SBool, fmt.Sprintf("(%s %s %s)", fn, a.S, b.S))
}

func (c *VCtx) hasPrefix(s, p *Term) *Term {
	return T(SBool, fmt.Sprintf("(hasprefix %s %s)", s.S, p.S))
}

func (c *VCtx) strConcat(a, b *Term) *Term {
	r := c.fresh("cat", SStr)
	c.defFact(r, Eq(StrLen(r), Add(StrLen(a), StrLen(b))))
	c.defFact(r, T(SBool, fmt.Sprintf("(forall ((i Int)) (! (= (select (str-data %s) i) (ite (< i (slen %s)) (select (str-data %s) i) (select (str-data %s) (- i (slen %s))))) :pattern ((select (str-data %s) i))))", r.S, a.S, a.S, b.S, a.S, r.S)))
	return r
}

func (c *VCtx) unop(fr *Frame, st *State, x *ssa.UnOp) Val {
	switch x.Op {
	case token.MUL:
		if g, ok := x.X.(*ssa.Global); ok {
			return c.globalVal(g)
		}
		p := fr.eval(x.X)
		if t, ok := p.(*Term); ok {
			c.safety(fr, st, "nilderef", Not(Eq(t, Null)), x.Pos())
			// load of a whole struct: give back the address as an immutable snapshot only if the struct is never mutated; unsupported
			unsup("load of struct value %s", x.X.Type())
		}
		if l, ok := p.(*Loc); ok && l.Kind == "cell" {
			// pointer may be nil only if it came from outside
			c.safety(fr, st, "nilderef", Not(Eq(l.Base, Null)), x.Pos())
		}
		return c.load(fr, st, p, x.Pos())
	case token.NOT:
		return Not(fr.term(x.X))
	case token.SUB:
		return wrap(T(SInt, app("-", fr.term(x.X))), x.Type())
	case token.ARROW:
		return c.recv(fr, st, x)
	case token.XOR:
		t := fr.term(x.X)
		_, signed, _ := intInfo(x.Type())
		if signed {
			return wrap(Sub(T(SInt, app("-", t)), IntLit(1)), x.Type())
		}
		bits, _, _ := intInfo(x.Type())
		return Sub(Sub(IntLitS(pow2str(bits)), IntLit(1)), t)
	}
	unsup("unop %s", x.Op)
	return nil
}

func (c *VCtx) globalVal(g *ssa.Global) Val {
	el := g.Type().(*types.Pointer).Elem()
	name := "glob!" + shortPkg(g.Pkg.Pkg.Path()) + "." + g.Name()
	s := sortOf(el)
	t := c.declare(name, s)
	t.GT = el
	if s == SRef {
		if !c.declSet["nn:"+name] && types.Identical(el, types.Universe.Lookup("error").Type()) {
			c.declSet["nn:"+name] = true
			c.facts0(Not(Eq(t, Null)))
		}
		if !c.declSet["al:"+name] {
			// package-level values exist before the function starts
			c.declSet["al:"+name] = true
			a0 := c.declare(c.heapName("G:alloc", 0), ArrSort(SRef, SBool))
			c.heapSorts["G:alloc"] = ArrSort(SRef, SBool)
			c.facts0(Or(Eq(t, Null), Select(a0, t)))
		}
	}
	c.eng.assume("package-level variables (error sentinels such as context.Canceled, io.EOF) are immutable constants")
	return c.typed(t, el)
}

func (c *VCtx) convert(fr *Frame, st *State, x *ssa.Convert) Val {
	v := fr.eval(x.X)
	from, to := x.X.Type(), x.Type()
	fs, ts := sortOf(from), sortOf(to)
	switch {
	case fs == SInt && ts == SInt:
		t := c.asTerm(v)
		r := wrap(t, to)
		r.GT = to
		return c.name("cv", r)
	case fs == SInt && ts == SStr:
		// string(rune/byte): UTF-8 encoding of the code point
		t := c.asTerm(v)
		r := c.fresh("runestr", SStr)
		d := StrData(r)
		sel := func(i int64) *Term { return Select(d, IntLit(i)) }
		valid := And(Ge(t, IntLit(0)), Le(t, IntLit(0x10FFFF)), Not(And(Ge(t, IntLit(0xD800)), Le(t, IntLit(0xDFFF)))))
		one := And(Eq(StrLen(r), IntLit(1)), Eq(sel(0), t))
		two := And(Eq(StrLen(r), IntLit(2)),
			Eq(sel(0), Add(IntLit(0xC0), T(SInt, fmt.Sprintf("(div %s 64)", t.S)))),
			Eq(sel(1), Add(IntLit(0x80), T(SInt, fmt.Sprintf("(mod %s 64)", t.S)))))
		three := And(Eq(StrLen(r), IntLit(3)),
			Eq(sel(0), Add(IntLit(0xE0), T(SInt, fmt.Sprintf("(div %s 4096)", t.S)))),
			Eq(sel(1), Add(IntLit(0x80), T(SInt, fmt.Sprintf("(mod (div %s 64) 64)", t.S)))),
			Eq(sel(2), Add(IntLit(0x80), T(SInt, fmt.Sprintf("(mod %s 64)", t.S)))))
		four := And(Eq(StrLen(r), IntLit(4)),
			Eq(sel(0), Add(IntLit(0xF0), T(SInt, fmt.Sprintf("(div %s 262144)", t.S)))),
			Eq(sel(1), Add(IntLit(0x80), T(SInt, fmt.Sprintf("(mod (div %s 4096) 64)", t.S)))),
			Eq(sel(2), Add(IntLit(0x80), T(SInt, fmt.Sprintf("(mod (div %s 64) 64)", t.S)))),
			Eq(sel(3), Add(IntLit(0x80), T(SInt, fmt.Sprintf("(mod %s 64)", t.S)))))
		bad := And(Eq(StrLen(r), IntLit(3)), Eq(sel(0), IntLit(0xEF)), Eq(sel(1), IntLit(0xBF)), Eq(sel(2), IntLit(0xBD)))
		c.defFact(r, Ite(Not(valid), bad, Ite(Lt(t, IntLit(0x80)), one, Ite(Lt(t, IntLit(0x800)), two, Ite(Lt(t, IntLit(0x10000)), three, four)))))
		return r
	case fs == SSlice && ts == SStr:
		// string(bytes)
		s := c.asTerm(v)
		r := c.fresh("bstr", SStr)
		h := c.heap(st, elemHeapName(SInt), ArrSort(SRef, ArrSort(SInt, SInt)))
		c.defFact(r, Eq(StrLen(r), SlLen(s)))
		c.defFact(r, T(SBool, fmt.Sprintf("(forall ((i Int)) (! (=> (and (<= 0 i) (< i (s-len %s))) (= (select (str-data %s) i) (select (select %s (s-arr %s)) (+ (s-off %s) i)))) :pattern ((select (str-data %s) i))))", s.S, r.S, h.S, s.S, s.S, r.S)))
		return r
	case fs == SStr && ts == SSlice:
		s := c.asTerm(v)
		arr := c.freshRef(st, "arr")
		hn := elemHeapName(SInt)
		h := c.heap(st, hn, ArrSort(SRef, ArrSort(SInt, SInt)))
		c.setHeap(st, hn, Store(h, arr, StrData(s)))
		cp := c.fresh("cap", SInt)
		c.fact(And(Ge(cp, StrLen(s)), Lt(cp, IntLitS(pow2str(62)))))
		return MkSlice(arr, IntLit(0), StrLen(s), cp, to)
	case fs == ts:
		if t, ok := v.(*Term); ok {
			return TG(t.Sort, to, t.S)
		}
		return v
	}
	unsup("conversion %s -> %s", from, to)
	return nil
}

func (c *VCtx) indexAddr(fr *Frame, st *State, x *ssa.IndexAddr) Val {
	idx := fr.term(x.Index)
	switch t := x.X.Type().Underlying().(type) {
	case *types.Slice:
		s := fr.term(x.X)
		c.safety(fr, st, "index", And(Ge(idx, IntLit(0)), Lt(idx, SlLen(s))), x.Pos())
		es := sortOf(t.Elem())
		return &Loc{Kind: "elem", Heap: elemHeapName(es), Sort: es, Base: SlArr(s), Idx: SIdx(s, idx), GT: t.Elem()}
	case *types.Pointer:
		at := t.Elem().Underlying().(*types.Array)
		l, ok := fr.eval(x.X).(*Loc)
		if !ok || l.Kind != "arr" {
			unsup("index of array pointer that is not an array location")
		}
		c.safety(fr, st, "index", And(Ge(idx, IntLit(0)), Lt(idx, IntLit(at.Len()))), x.Pos())
		es := sortOf(at.Elem())
		return &Loc{Kind: "elem", Heap: elemHeapName(es), Sort: es, Base: l.Base, Idx: idx, GT: at.Elem()}
	}
	unsup("IndexAddr on %s", x.X.Type())
	return nil
}

func (c *VCtx) sliceOp(fr *Frame, st *State, x *ssa.Slice) Val {
	var lo, hi, mx *Term
	if x.Low != nil {
		lo = fr.term(x.Low)
	} else {
		lo = IntLit(0)
	}
	switch t := x.X.Type().Underlying().(type) {
	case *types.Slice:
		s := fr.term(x.X)
		if x.High != nil {
			hi = fr.term(x.High)
		} else {
			hi = SlLen(s)
		}
		if x.Max != nil {
			mx = fr.term(x.Max)
		} else {
			mx = SlCap(s)
		}
		c.safety(fr, st, "slicebounds", And(Ge(lo, IntLit(0)), Le(lo, hi), Le(hi, mx), Le(mx, SlCap(s))), x.Pos())
		r := MkSlice(SlArr(s), Add(SlOff(s), lo), Sub(hi, lo), Sub(mx, lo), x.Type())
		return c.name("sl", r)
	case *types.Basic: // string
		s := fr.term(x.X)
		if x.High != nil {
			hi = fr.term(x.High)
		} else {
			hi = StrLen(s)
		}
		c.safety(fr, st, "slicebounds", And(Ge(lo, IntLit(0)), Le(lo, hi), Le(hi, StrLen(s))), x.Pos())
		return c.substr(s, lo, hi)
	case *types.Pointer:
		at := t.Elem().Underlying().(*types.Array)
		l, ok := fr.eval(x.X).(*Loc)
		if !ok || l.Kind != "arr" {
			unsup("slice of array pointer that is not an array location")
		}
		n := IntLit(at.Len())
		if x.High != nil {
			hi = fr.term(x.High)
		} else {
			hi = n
		}
		if x.Max != nil {
			mx = fr.term(x.Max)
		} else {
			mx = n
		}
		c.safety(fr, st, "slicebounds", And(Ge(lo, IntLit(0)), Le(lo, hi), Le(hi, mx), Le(mx, n)), x.Pos())
		return c.name("sl", MkSlice(l.Base, lo, Sub(hi, lo), Sub(mx, lo), x.Type()))
	}
	unsup("slice of %s", x.X.Type())
	return nil
}

func (c *VCtx) substr(s, lo, hi *Term) *Term {
	r := c.fresh("sub", SStr)
	c.defFact(r, Eq(StrLen(r), Sub(hi, lo)))
	c.defFact(r, T(SBool, fmt.Sprintf("(forall ((i Int)) (! (= (select (str-data %s) i) (select (str-data %s) (+ i %s))) :pattern ((select (str-data %s) i))))", r.S, s.S, lo.S, r.S)))
	return r
}

func (c *VCtx) lookup(fr *Frame, st *State, x *ssa.Lookup) Val {
	switch t := x.X.Type().Underlying().(type) {
	case *types.Basic:
		s := fr.term(x.X)
		idx := fr.term(x.Index)
		c.safety(fr, st, "index", And(Ge(idx, IntLit(0)), Lt(idx, StrLen(s))), x.Pos())
		v := c.name("ch", Select(StrData(s), idx))
		v.GT = types.Typ[types.Uint8]
		c.fact(And(Ge(v, IntLit(0)), Le(v, IntLit(255))))
		return v
	case *types.Map:
		m := fr.term(x.X)
		k := c.asTerm(fr.eval(x.Index))
		dn, vn, _ := mapHeapNames(t)
		ks, vs := sortOf(t.Key()), sortOf(t.Elem())
		dom := c.heap(st, dn, ArrSort(SRef, ArrSort(ks, SBool)))
		val := c.heap(st, vn, ArrSort(SRef, ArrSort(ks, vs)))
		c.checkMapAccess(fr, st, m, x.X, false, x.Pos())
		in := Select(Select(dom, m), k)
		raw := Select(Select(val, m), k)
		z := c.asTerm(c.zero(t.Elem()))
		v := c.name("mv", Ite(in, raw, z))
		v.GT = t.Elem()
		if v.Sort == SInt || v.Sort == SSlice || v.Sort == SStr {
			c.typeFacts(v, t.Elem())
		}
		res := c.typed(v, t.Elem())
		c.known(st, res)
		if x.CommaOk {
			return Tuple{res, in}
		}
		return res
	}
	unsup("Lookup on %s", x.X.Type())
	return nil
}

// ---------- maps ----------

func mapHeapNames(mt *types.Map) (dom, val, card string) {
	k := string(sortOf(mt.Key())) + ":" + string(sortOf(mt.Elem()))
	return "M:dom:" + k, "M:val:" + k, "M:card:" + k
}

func (c *VCtx) makeMap(st *State, t types.Type) Val {
	mt := t.Underlying().(*types.Map)
	r := c.freshRef(st, "map")
	r.GT = t
	c.allFresh = append(c.allFresh, r)
	dn, _, cn := mapHeapNames(mt)
	ks := sortOf(mt.Key())
	dom := c.heap(st, dn, ArrSort(SRef, ArrSort(ks, SBool)))
	c.setHeap(st, dn, Store(dom, r, T(ArrSort(ks, SBool), fmt.Sprintf("((as const (Array %s Bool)) false)", ks))))
	card := c.heap(st, cn, ArrSort(SRef, SInt))
	c.setHeap(st, cn, Store(card, r, IntLit(0)))
	return r
}

func (c *VCtx) mapUpdate(fr *Frame, st *State, x *ssa.MapUpdate) {
	mt := x.Map.Type().Underlying().(*types.Map)
	m := fr.term(x.Map)
	k := c.asTerm(fr.eval(x.Key))
	v := c.asTerm(fr.eval(x.Value))
	c.safety(fr, st, "nilmap", Not(Eq(m, Null)), x.Pos())
	c.checkMapAccess(fr, st, m, x.Map, true, x.Pos())
	dn, vn, cn := mapHeapNames(mt)
	ks, vs := sortOf(mt.Key()), sortOf(mt.Elem())
	dom := c.heap(st, dn, ArrSort(SRef, ArrSort(ks, SBool)))
	val := c.heap(st, vn, ArrSort(SRef, ArrSort(ks, vs)))
	card := c.heap(st, cn, ArrSort(SRef, SInt))
	was := Select(Select(dom, m), k)
	c.setHeap(st, cn, Store(card, m, Ite(was, Select(card, m), Add(Select(card, m), IntLit(1)))))
	c.setHeap(st, dn, Store(dom, m, Store(Select(dom, m), k, True)))
	c.setHeap(st, vn, Store(val, m, Store(Select(val, m), k, v)))
}

func (c *VCtx) mapDelete(fr *Frame, st *State, mv ssa.Value, kv ssa.Value, pos token.Pos) {
	mt := mv.Type().Underlying().(*types.Map)
	m := fr.term(mv)
	k := c.asTerm(fr.eval(kv))
	c.checkMapAccess(fr, st, m, mv, true, pos)
	dn, _, cn := mapHeapNames(mt)
	ks := sortOf(mt.Key())
	dom := c.heap(st, dn, ArrSort(SRef, ArrSort(ks, SBool)))
	card := c.heap(st, cn, ArrSort(SRef, SInt))
	was := Select(Select(dom, m), k)
	// delete on a nil map is a no-op
	nn := Not(Eq(m, Null))
	c.setHeap(st, cn, Ite(nn, Store(card, m, Ite(was, Sub(Select(card, m), IntLit(1)), Select(card, m))), card))
	c.setHeap(st, dn, Ite(nn, Store(dom, m, Store(Select(dom, m), k, False)), dom))
}

// range over a map: the iterator carries a ghost "visited" set; Next yields an unvisited key of the
// domain as it was when the range started (Go allows entries deleted during iteration to be skipped and
// entries added to be produced or not; the model yields only keys that are currently present).
type mapIter struct {
	m       *Term
	mt      *types.Map
	visited *Term // Array K Bool, current
	isStr   bool
}

var iterTable = map[*VCtx]map[ssa.Value]*mapIter{}

func (c *VCtx) rangeInit(fr *Frame, st *State, x *ssa.Range) Val {
	mt, ok := x.X.Type().Underlying().(*types.Map)
	if !ok {
		unsup("range over string")
	}
	m := fr.term(x.X)
	ks := sortOf(mt.Key())
	it := c.freshRef(st, "iter")
	// visited set lives in a ghost heap keyed by iterator ref so it survives loop havoc correctly
	hn := "G:visited:" + string(ks)
	h := c.heap(st, hn, ArrSort(SRef, ArrSort(ks, SBool)))
	c.setHeap(st, hn, Store(h, it, T(ArrSort(ks, SBool), fmt.Sprintf("((as const (Array %s Bool)) false)", ks))))
	mh := c.heap(st, "G:itermap", ArrSort(SRef, SRef))
	c.setHeap(st, "G:itermap", Store(mh, it, m))
	it.GT = x.Type()
	if iterTable[c] == nil {
		iterTable[c] = map[ssa.Value]*mapIter{}
	}
	iterTable[c][x] = &mapIter{m: m, mt: mt}
	fr.lastIter = it
	return it
}

func (c *VCtx) rangeNext(fr *Frame, st *State, x *ssa.Next) Val {
	if x.IsString {
		unsup("range over string")
	}
	rg, ok := x.Iter.(*ssa.Range)
	if !ok {
		unsup("Next on non-Range iterator")
	}
	mi := iterTable[c][rg]
	if mi == nil {
		unsup("unknown iterator")
	}
	it := fr.term(x.Iter)
	mt := mi.mt
	ks, vs := sortOf(mt.Key()), sortOf(mt.Elem())
	dn, vn, _ := mapHeapNames(mt)
	dom := c.heap(st, dn, ArrSort(SRef, ArrSort(ks, SBool)))
	val := c.heap(st, vn, ArrSort(SRef, ArrSort(ks, vs)))
	hn := "G:visited:" + string(ks)
	vh := c.heap(st, hn, ArrSort(SRef, ArrSort(ks, SBool)))
	visited := Select(vh, it)
	m := mi.m
	c.checkMapAccess(fr, st, m, rg.X, false, x.Pos())
	ok2 := c.fresh("itok", SBool)
	k := c.fresh("itkey", ks)
	k.GT = mt.Key()
	// ok => k in dom and not visited; !ok => every key of dom is visited (nil map: dom empty)
	mdom := Select(dom, m)
	c.fact(Implies(st.pc, Implies(ok2, And(Select(mdom, k), Not(Select(visited, k)), Not(Eq(m, Null))))))
	c.fact(Implies(st.pc, Implies(Not(ok2), T(SBool, fmt.Sprintf("(forall ((kk %s)) (! (=> (and (not (= %s null)) (select %s kk)) (select %s kk)) :pattern ((select %s kk))))", ks, m.S, mdom.S, visited.S, mdom.S)))))
	c.setHeap(st, hn, Store(vh, it, Store(visited, k, True)))
	v := c.name("itval", Select(Select(val, m), k))
	v.GT = mt.Elem()
	if v.Sort == SInt || v.Sort == SSlice || v.Sort == SStr {
		c.typeFacts(v, mt.Elem())
	}
	rv := c.typed(v, mt.Elem())
	c.known(st, rv)
	return Tuple{ok2, c.typed(k, mt.Key()), rv}
}
