package vc

import (
	"fmt"
	"os"
	"path/filepath"
	"regexp"
	"strconv"
	"strings"
)

// ---------- contract file structure ----------

// Clause is one labelled formula of a contract.
type Clause struct {
	Label string
	Src   string
	E     Expr
	Line  int
	File  string
	Props []string // optional: the properties this clause serves (label[C14 C05]: ...); default: those of the object / function
}

// LoopSpec collects the clauses for one loop (by source-order ordinal, 1-based).
type LoopSpec struct {
	Invariants []*Clause
}

// FuncContract is the contract block of one function / closure.
type FuncContract struct {
	Pkg      string // package path
	Name     string // e.g. "PadInPlace", "(*Mutex).Lock", "(*Mutex).Lock$1"
	Props    []string
	Requires []*Clause
	Ensures  []*Clause
	LocalMon *LocalMonitor // a Broadcast / mutex local variable guarding other local variables (shared with closures)
	ClosureInv []*Clause // closures: facts about captured variables, proved at creation, assumed when the closure runs (must be stable)
	Asserts  map[string][]*Clause // point (e.g. "select 1") -> assertions proved at that point
	Assumes  []*Clause // definitional assumptions (listed in the evidence), asserted at function entry
	Modifies []string // raw modifies items
	Loops    map[int]*LoopSpec
	MayPanic bool
	Inline   bool   // callers inline the body instead of using the contract
	InlineOnly bool // never verified on its own
	Trusted  string // non-empty: body is not verified, contract is assumed (reason)
	Pure     bool
	Entry    bool // verify as thread entry even if unexported
	Ghost    []*GhostStmt
	File     string
	Line     int
	Opts     map[string]string
	AssumesAt map[string][]*Clause // point -> assumptions taken there ("recv N")
	Binds    map[string]string // closures: captured func variable -> key of the sibling closure it holds
	PubCells []string // closures: captured variables written once by the token holder before close(PubChan), read only after it is closed
	PubChan  string
	PubToken string
}

// LocalMonitor: "localmonitor <lockvar> guards v1, v2"; "lghost g: sort"; "linv name: formula".
type LocalMonitor struct {
	LockVar string
	Vars    []string
	Ghost   []SpecParam
	Invs    []*Clause
	Bounded []string // counters assumed not to overflow
	Owner   string // contract key of the function that declares the variables (for closures: "of <key>")
}

// GhostStmt is a ghost assignment attached to a program point of a function.
type GhostStmt struct {
	At   string // "entry", "exit", "action N exit" ...
	Src  string
	Line int
}

// SpecFunc is a pure specification function, defined or uninterpreted.
type SpecFunc struct {
	Name   string
	Params []SpecParam
	Ret    string
	Body   Expr // nil = uninterpreted
	Src    string
}
type SpecParam struct{ Name, Type string }

// ObjectSpec describes a monitor: the lock, what it guards, ghost fields, invariants.
// InnerSpec: "inner <field>: <methods> from <functions>" (checked syntactically over the package's SSA).
type InnerSpec struct {
	Field    string
	Mutators []string
	From     []string
}

type ObjectSpec struct {
	Pkg      string
	Type     string   // struct type name
	Lock     string   // field name of the lock (broadcast.Broadcast, sync.Mutex, sync.RWMutex)
	Guarded  []string // "f" (own field) or "Other.f" (field of another struct type in the package)
	Atomic   []string
	Immut    []string
	Ghost    []SpecParam // ghost fields (heaps indexed by object ref)
	Invs     []*Clause
	Trans    []*Clause
	Stable   []*Clause // predicates that stay true while the lock is held, whatever other threads / callbacks do
	Rules    []*Clause // two-state ghost definitions: "g == expr(old, new)"
	Props    []string
	File     string
	Line     int
	LockOf   string // alternative: lock lives in another object reachable by field path
	Locals   bool   // object is the set of captured locals of a function (ccall)
	Mode     string // "sequential": no interference at lock acquisition (properties over call histories)
	Volatile []string
	Bounded  []string // counters assumed not to overflow (|x| < 2^62 at lock acquisition)
	Published []string // fields written once by the holder of a token before close(PubChan), read only after it is closed
	PubChan  string   // channel field whose close publishes them
	PubToken string   // owned ghost map: object -> invocation allowed to write
	Via      map[string]string // sub-object type -> pointer field of that type naming the monitor object it belongs to
	Owns     []string // pointer fields whose target objects are used only while this object's lock is held
	Inner    []InnerSpec // wrapped objects reachable only through this one, with the functions allowed to mutate them
}

// Lemma is a pure formula proved once.
type Lemma struct {
	Pkg   string
	Name  string
	Props []string
	Vars  []SpecParam
	C     *Clause
}

// Axiom is an assumed pure formula (listed in evidence).
type Axiom struct {
	Pkg    string
	Name   string
	C      *Clause
	Reason string
}

// PkgSpec is everything declared in one package's contract file(s).
type PkgSpec struct {
	Pkg     string
	Funcs   map[string]*FuncContract
	Order   []string
	Specs   map[string]*SpecFunc
	SpecOrd []string
	Objects map[string]*ObjectSpec
	Lemmas  []*Lemma
	Axioms  []*Axiom
	Ghosts  []SpecParam // package-level ghost maps "name: K -> V [owned|once]"
	Gsteps  []*Clause   // two-state clauses every single action must satisfy (not transitive: proved, never assumed)
	Ginvs   []*Clause   // global invariants: hold whenever no critical section of the objects involved is in progress; also at atomic operations
	Gtrans  []*Clause   // two-state guarantees every atomic action satisfies (rely of the others)
	Assumes []string    // free-text assumptions recorded for the evidence
}

var labelPropsRe = regexp.MustCompile(`^([A-Za-z_][A-Za-z0-9_]*)\[([A-Z0-9 ]+)\]:\s*(.*)$`)
var labelRe = regexp.MustCompile(`^([A-Za-z_][A-Za-z0-9_.\-]*)\s*:\s+(.*)$`)

// ParseSpecFile reads the //@ lines of a file.
func ParseSpecFile(path, pkgPath string, ps *PkgSpec) error {
	data, err := os.ReadFile(path)
	if err != nil {
		return err
	}
	if ps.Funcs == nil {
		ps.Funcs = map[string]*FuncContract{}
		ps.Specs = map[string]*SpecFunc{}
		ps.Objects = map[string]*ObjectSpec{}
	}
	ps.Pkg = pkgPath
	lines := strings.Split(string(data), "\n")
	var curF *FuncContract
	var curO *ObjectSpec
	// join continuation lines
	type ln struct {
		s string
		n int
	}
	var ls []ln
	for i, raw := range lines {
		t := strings.TrimSpace(raw)
		if !strings.HasPrefix(t, "//@") {
			continue
		}
		body := strings.TrimSpace(t[3:])
		if body == "" {
			continue
		}
		if idx := strings.Index(body, " //"); idx >= 0 && !strings.Contains(body[:idx], "\"") {
			body = strings.TrimSpace(body[:idx])
		}
		if len(ls) > 0 && strings.HasSuffix(ls[len(ls)-1].s, "\\") {
			prev := ls[len(ls)-1].s
			ls[len(ls)-1].s = strings.TrimSuffix(prev, "\\") + " " + body
			continue
		}
		ls = append(ls, ln{body, i + 1})
	}
	fail := func(n int, f string, a ...any) error {
		return fmt.Errorf("%s:%d: %s", filepath.Base(path), n, fmt.Sprintf(f, a...))
	}
	mkClause := func(n int, rest string) (*Clause, error) {
		label := ""
		var props []string
		if m := labelPropsRe.FindStringSubmatch(rest); m != nil {
			// label[C14 C05]: expr
			label, props, rest = m[1], strings.Fields(m[2]), m[3]
		} else if m := labelRe.FindStringSubmatch(rest); m != nil && m[1] != "forall" && m[1] != "exists" {
			label, rest = m[1], m[2]
		}
		e, err := ParseExpr(rest)
		if err != nil {
			return nil, fail(n, "%v in %q", err, rest)
		}
		return &Clause{Label: label, Src: rest, E: e, Line: n, File: path, Props: props}, nil
	}
	for _, l := range ls {
		kw, rest := splitKw(l.s)
		switch kw {
		case "func", "closure":
			curO = nil
			curF = &FuncContract{Pkg: pkgPath, Name: rest, Loops: map[int]*LoopSpec{}, File: path, Line: l.n, Opts: map[string]string{}}
			if kw == "closure" {
				// annotations for a closure that only ever runs inlined in its creator (e.g. a HoldLock callback)
				curF.Inline, curF.InlineOnly = true, true
			}
			if _, dup := ps.Funcs[rest]; dup {
				return fail(l.n, "duplicate contract for %s", rest)
			}
			ps.Funcs[rest] = curF
			ps.Order = append(ps.Order, rest)
		case "object":
			curF = nil
			curO = &ObjectSpec{Pkg: pkgPath, Type: rest, File: path, Line: l.n}
			ps.Objects[rest] = curO
		case "spec":
			sf, err := parseSpecFunc(rest)
			if err != nil {
				return fail(l.n, "%v", err)
			}
			ps.Specs[sf.Name] = sf
			ps.SpecOrd = append(ps.SpecOrd, sf.Name)
		case "lemma":
			// lemma name [props] (x: T, ...): formula
			lm, err := parseLemma(rest)
			if err != nil {
				return fail(l.n, "%v", err)
			}
			lm.Pkg = pkgPath
			lm.C.Line, lm.C.File = l.n, path
			ps.Lemmas = append(ps.Lemmas, lm)
		case "ginv", "gtrans", "gstep":
			c, err := mkClause(l.n, rest)
			if err != nil {
				return err
			}
			switch kw {
			case "ginv":
				ps.Ginvs = append(ps.Ginvs, c)
			case "gtrans":
				ps.Gtrans = append(ps.Gtrans, c)
			default:
				// guarantee about every single atomic action of this package; never assumed about others' steps
				ps.Gsteps = append(ps.Gsteps, c)
			}
		case "axiom":
			c, err := mkClause(l.n, rest)
			if err != nil {
				return err
			}
			ps.Axioms = append(ps.Axioms, &Axiom{Pkg: pkgPath, Name: c.Label, C: c})
		case "assume-note":
			ps.Assumes = append(ps.Assumes, rest)
		case "ghostmap":
			// ghostmap name: K -> V
			nm, ty, ok := strings.Cut(rest, ":")
			if !ok {
				return fail(l.n, "ghostmap needs name: K -> V")
			}
			ps.Ghosts = append(ps.Ghosts, SpecParam{strings.TrimSpace(nm), strings.TrimSpace(ty)})
		case "props":
			items := strings.Fields(strings.ReplaceAll(rest, ",", " "))
			if curF != nil {
				curF.Props = items
			} else if curO != nil {
				curO.Props = items
			} else {
				return fail(l.n, "props outside block")
			}
		case "assert":
			if curF == nil {
				return fail(l.n, "assert outside func block")
			}
			pt, ex, ok := strings.Cut(rest, ":")
			if !ok {
				return fail(l.n, "assert needs '<point>: <expr>'")
			}
			c, err := mkClause(l.n, strings.TrimSpace(ex))
			if err != nil {
				return err
			}
			if curF.Asserts == nil {
				curF.Asserts = map[string][]*Clause{}
			}
			pt = strings.TrimSpace(pt)
			curF.Asserts[pt] = append(curF.Asserts[pt], c)
		case "assumeat":
			// assumeat <point>: [label:] expr  - an assumption (listed in the evidence) taken at a program point
			if curF == nil {
				return fail(l.n, "assumeat outside func block")
			}
			pt, ex, ok := strings.Cut(rest, ":")
			if !ok {
				return fail(l.n, "assumeat needs '<point>: <expr>'")
			}
			c, err := mkClause(l.n, strings.TrimSpace(ex))
			if err != nil {
				return err
			}
			if curF.AssumesAt == nil {
				curF.AssumesAt = map[string][]*Clause{}
			}
			curF.AssumesAt[strings.TrimSpace(pt)] = append(curF.AssumesAt[strings.TrimSpace(pt)], c)
		case "localmonitor":
			if curF == nil {
				return fail(l.n, "localmonitor outside func block")
			}
			lv, vars, ok := strings.Cut(rest, " guards ")
			if !ok {
				return fail(l.n, "expected: localmonitor <lockvar> guards v1, v2")
			}
			curF.LocalMon = &LocalMonitor{LockVar: strings.TrimSpace(lv), Vars: strings.Fields(strings.ReplaceAll(vars, ",", " "))}
		case "lghost":
			if curF == nil || curF.LocalMon == nil {
				return fail(l.n, "lghost needs a preceding localmonitor")
			}
			nm, ty, ok := strings.Cut(rest, ":")
			if !ok {
				return fail(l.n, "lghost needs name: type")
			}
			curF.LocalMon.Ghost = append(curF.LocalMon.Ghost, SpecParam{strings.TrimSpace(nm), strings.TrimSpace(ty)})
		case "lbounded":
			if curF == nil || curF.LocalMon == nil {
				return fail(l.n, "lbounded needs a preceding localmonitor")
			}
			curF.LocalMon.Bounded = append(curF.LocalMon.Bounded, strings.Fields(strings.ReplaceAll(rest, ",", " "))...)
		case "linv":
			if curF == nil || curF.LocalMon == nil {
				return fail(l.n, "linv needs a preceding localmonitor")
			}
			c, err := mkClause(l.n, rest)
			if err != nil {
				return err
			}
			curF.LocalMon.Invs = append(curF.LocalMon.Invs, c)
		case "bind":
			// bind <captured func variable> = <closure key>: the captured variable holds that sibling closure,
			// created over the same variables (checked where this closure is created)
			if curF == nil {
				return fail(l.n, "bind outside func block")
			}
			v, key, ok := strings.Cut(rest, "=")
			if !ok {
				return fail(l.n, "bind needs '<var> = <closure key>'")
			}
			if curF.Binds == nil {
				curF.Binds = map[string]string{}
			}
			curF.Binds[strings.TrimSpace(v)] = strings.TrimSpace(key)
		case "captured":
			if curF == nil {
				return fail(l.n, "captured outside func block")
			}
			c, err := mkClause(l.n, rest)
			if err != nil {
				return err
			}
			curF.ClosureInv = append(curF.ClosureInv, c)
		case "assume":
			if curF == nil {
				return fail(l.n, "assume outside func block")
			}
			c, err := mkClause(l.n, rest)
			if err != nil {
				return err
			}
			curF.Assumes = append(curF.Assumes, c)
		case "requires", "ensures":
			if curF == nil {
				return fail(l.n, "%s outside func block", kw)
			}
			c, err := mkClause(l.n, rest)
			if err != nil {
				return err
			}
			if kw == "requires" {
				curF.Requires = append(curF.Requires, c)
			} else {
				curF.Ensures = append(curF.Ensures, c)
			}
		case "modifies":
			if curF == nil {
				return fail(l.n, "modifies outside func block")
			}
			for _, it := range strings.Split(rest, ",") {
				if it = strings.TrimSpace(it); it != "" {
					curF.Modifies = append(curF.Modifies, it)
				}
			}
		case "loop":
			if curF == nil {
				return fail(l.n, "loop outside func block")
			}
			f := strings.Fields(rest)
			if len(f) < 3 || f[1] != "invariant" {
				return fail(l.n, "expected: loop N invariant <expr>")
			}
			n, err := strconv.Atoi(f[0])
			if err != nil {
				return fail(l.n, "bad loop ordinal")
			}
			exprSrc := strings.TrimSpace(strings.SplitN(rest, "invariant", 2)[1])
			c, err := mkClause(l.n, exprSrc)
			if err != nil {
				return err
			}
			if curF.Loops[n] == nil {
				curF.Loops[n] = &LoopSpec{}
			}
			curF.Loops[n].Invariants = append(curF.Loops[n].Invariants, c)
		case "maypanic":
			curF.MayPanic = true
		case "inline":
			curF.Inline = true
		case "pure":
			curF.Pure = true
		case "entry":
			curF.Entry = true
		case "trusted":
			curF.Trusted = rest
			if rest == "" {
				curF.Trusted = "no reason given"
			}
		case "opt":
			k, v, _ := strings.Cut(rest, "=")
			curF.Opts[strings.TrimSpace(k)] = strings.TrimSpace(v)
		case "ghost":
			if curF != nil {
				// ghost at <point>: stmt
				at, stmt, ok := strings.Cut(rest, ":")
				if !ok {
					return fail(l.n, "ghost needs 'at: stmt'")
				}
				curF.Ghost = append(curF.Ghost, &GhostStmt{At: strings.TrimSpace(at), Src: strings.TrimSpace(stmt), Line: l.n})
			} else if curO != nil {
				nm, ty, ok := strings.Cut(rest, ":")
				if !ok {
					return fail(l.n, "ghost needs name: type")
				}
				curO.Ghost = append(curO.Ghost, SpecParam{strings.TrimSpace(nm), strings.TrimSpace(ty)})
			} else {
				return fail(l.n, "ghost outside block")
			}
		case "lock":
			if curO == nil {
				return fail(l.n, "lock outside object block")
			}
			curO.Lock = rest
		case "locals":
			curO.Locals = true
		case "mode":
			curO.Mode = rest
		case "published":
			// published f1, f2 by <chanfield> token <ghostmap>
			if curO == nil && curF == nil {
				return fail(l.n, "published outside object / func block")
			}
			fs, tail, ok := strings.Cut(rest, " by ")
			if !ok {
				return fail(l.n, "expected: published f1, f2 by <chan field> token <owned ghost map>")
			}
			ch, tok, _ := strings.Cut(tail, " token ")
			if curO == nil {
				curF.PubCells = append(curF.PubCells, strings.Fields(strings.ReplaceAll(fs, ",", " "))...)
				curF.PubChan, curF.PubToken = strings.TrimSpace(ch), strings.TrimSpace(tok)
				break
			}
			curO.Published = append(curO.Published, strings.Fields(strings.ReplaceAll(fs, ",", " "))...)
			curO.PubChan, curO.PubToken = strings.TrimSpace(ch), strings.TrimSpace(tok)
		case "records":
			// records <Type> via <field>: the guarded fields of <Type> objects belong to the monitor their <field> points to
			if curO == nil {
				return fail(l.n, "records outside object block")
			}
			tn, fld, ok := strings.Cut(rest, " via ")
			if !ok {
				return fail(l.n, "expected: records <Type> via <field>")
			}
			if curO.Via == nil {
				curO.Via = map[string]string{}
			}
			curO.Via[strings.TrimSpace(tn)] = strings.TrimSpace(fld)
		case "inner":
			// inner <field>: <mutating methods...> from <function keys...>: the object behind <field> is reachable only
			// through this object, and only the listed functions call the listed methods on it
			if curO == nil {
				return fail(l.n, "inner outside object block")
			}
			fld, r2, ok := strings.Cut(rest, ":")
			ms, from, ok2 := strings.Cut(r2, " from ")
			if !ok || !ok2 {
				return fail(l.n, "expected: inner <field>: <methods> from <functions>")
			}
			curO.Inner = append(curO.Inner, InnerSpec{Field: strings.TrimSpace(fld), Mutators: strings.Fields(ms), From: strings.Fields(from)})
		case "owns":
			if curO == nil {
				return fail(l.n, "owns outside object block")
			}
			curO.Owns = append(curO.Owns, strings.Fields(strings.ReplaceAll(rest, ",", " "))...)
		case "bounded":
			if curO == nil {
				return fail(l.n, "bounded outside object block")
			}
			curO.Bounded = append(curO.Bounded, strings.Fields(strings.ReplaceAll(rest, ",", " "))...)
		case "guarded", "atomic", "immutable", "volatile":
			if curO == nil {
				return fail(l.n, "%s outside object block", kw)
			}
			items := strings.Fields(strings.ReplaceAll(rest, ",", " "))
			switch kw {
			case "guarded":
				curO.Guarded = append(curO.Guarded, items...)
			case "atomic":
				curO.Atomic = append(curO.Atomic, items...)
			case "immutable":
				curO.Immut = append(curO.Immut, items...)
			case "volatile":
				curO.Volatile = append(curO.Volatile, items...)
			}
		case "inv", "trans", "rule", "stable":
			if curO == nil {
				return fail(l.n, "%s outside object block", kw)
			}
			c, err := mkClause(l.n, rest)
			if err != nil {
				return err
			}
			switch kw {
			case "inv":
				curO.Invs = append(curO.Invs, c)
			case "trans":
				curO.Trans = append(curO.Trans, c)
			case "rule":
				curO.Rules = append(curO.Rules, c)
			case "stable":
				curO.Stable = append(curO.Stable, c)
			}
		default:
			return fail(l.n, "unknown clause keyword %q", kw)
		}
	}
	return nil
}

func splitKw(s string) (string, string) {
	i := strings.IndexAny(s, " \t")
	if i < 0 {
		return s, ""
	}
	return s[:i], strings.TrimSpace(s[i+1:])
}

var specFnRe = regexp.MustCompile(`^([A-Za-z_][A-Za-z0-9_]*)\s*\(([^)]*)\)\s*:\s*([^=]+?)\s*(=\s*(.*))?$`)

func parseParams(s string) ([]SpecParam, error) {
	var ps []SpecParam
	for _, p := range strings.Split(s, ",") {
		p = strings.TrimSpace(p)
		if p == "" {
			continue
		}
		nm, ty, ok := strings.Cut(p, ":")
		if !ok {
			return nil, fmt.Errorf("param %q needs name: type", p)
		}
		ps = append(ps, SpecParam{strings.TrimSpace(nm), strings.TrimSpace(ty)})
	}
	return ps, nil
}

func parseSpecFunc(s string) (*SpecFunc, error) {
	m := specFnRe.FindStringSubmatch(s)
	if m == nil {
		return nil, fmt.Errorf("bad spec function %q", s)
	}
	sf := &SpecFunc{Name: m[1], Ret: strings.TrimSpace(m[3]), Src: s}
	ps, err := parseParams(m[2])
	if err != nil {
		return nil, err
	}
	sf.Params = ps
	if m[5] != "" {
		e, err := ParseExpr(m[5])
		if err != nil {
			return nil, fmt.Errorf("%v in %q", err, m[5])
		}
		sf.Body = e
	}
	return sf, nil
}

var lemmaRe = regexp.MustCompile(`^([A-Za-z_][A-Za-z0-9_.\-]*)\s*(\[[^\]]*\])?\s*(\(([^)]*)\))?\s*:\s+(.*)$`)

func parseLemma(s string) (*Lemma, error) {
	m := lemmaRe.FindStringSubmatch(s)
	if m == nil {
		return nil, fmt.Errorf("bad lemma %q", s)
	}
	lm := &Lemma{Name: m[1]}
	if m[2] != "" {
		lm.Props = strings.Fields(strings.ReplaceAll(strings.Trim(m[2], "[]"), ",", " "))
	}
	if m[4] != "" {
		ps, err := parseParams(m[4])
		if err != nil {
			return nil, err
		}
		lm.Vars = ps
	}
	e, err := ParseExpr(m[5])
	if err != nil {
		return nil, fmt.Errorf("%v in %q", err, m[5])
	}
	lm.C = &Clause{Label: lm.Name, Src: m[5], E: e}
	return lm, nil
}

// ---------- expressions ----------

type Expr interface{}

type (
	EIdent  struct{ Name string }
	EInt    struct{ V string }
	EStr    struct{ V string }
	EBool   struct{ V bool }
	ENil    struct{}
	EUnary  struct{ Op string; X Expr }
	EBinary struct{ Op string; X, Y Expr }
	EField  struct{ X Expr; F string }
	EIndex  struct{ X, I Expr }
	ESlice  struct{ X, Lo, Hi Expr }
	ECall   struct{ Fn string; Args []Expr }
	EOld    struct{ X Expr }
	EQuant  struct {
		Forall   bool
		Vars     []SpecParam
		Triggers []Expr
		Body     Expr
	}
)

type tok struct {
	k string // "id","int","str","op","eof"
	s string
}

func lex(src string) ([]tok, error) {
	var ts []tok
	i := 0
	for i < len(src) {
		c := src[i]
		switch {
		case c == ' ' || c == '\t':
			i++
		case c >= '0' && c <= '9':
			j := i
			for j < len(src) && (src[j] >= '0' && src[j] <= '9' || src[j] == '_' || src[j] == 'x' || (src[j] >= 'a' && src[j] <= 'f') || (src[j] >= 'A' && src[j] <= 'F')) {
				j++
			}
			ts = append(ts, tok{"int", strings.ReplaceAll(src[i:j], "_", "")})
			i = j
		case c == '_' || (c >= 'a' && c <= 'z') || (c >= 'A' && c <= 'Z'):
			j := i
			for j < len(src) && (src[j] == '_' || src[j] == '$' || (src[j] >= 'a' && src[j] <= 'z') || (src[j] >= 'A' && src[j] <= 'Z') || (src[j] >= '0' && src[j] <= '9')) {
				j++
			}
			ts = append(ts, tok{"id", src[i:j]})
			i = j
		case c == '"':
			j := i + 1
			for j < len(src) && src[j] != '"' {
				j++
			}
			if j >= len(src) {
				return nil, fmt.Errorf("unterminated string")
			}
			ts = append(ts, tok{"str", src[i+1 : j]})
			i = j + 1
		default:
			ops := []string{"<==>", "==>", "::", "==", "!=", "<=", ">=", "&&", "||", "->", "<", ">", "+", "-", "*", "/", "%", "!", "(", ")", "[", "]", "{", "}", ".", ",", ":"}
			matched := false
			for _, op := range ops {
				if strings.HasPrefix(src[i:], op) {
					ts = append(ts, tok{"op", op})
					i += len(op)
					matched = true
					break
				}
			}
			if !matched {
				return nil, fmt.Errorf("unexpected character %q", c)
			}
		}
	}
	ts = append(ts, tok{"eof", ""})
	return ts, nil
}

type parser struct {
	ts []tok
	p  int
}

func (p *parser) peek() tok { return p.ts[p.p] }
func (p *parser) next() tok { t := p.ts[p.p]; p.p++; return t }
func (p *parser) isOp(s string) bool {
	t := p.peek()
	return t.k == "op" && t.s == s
}
func (p *parser) expectOp(s string) error {
	if !p.isOp(s) {
		return fmt.Errorf("expected %q, got %q", s, p.peek().s)
	}
	p.next()
	return nil
}

func ParseExpr(src string) (Expr, error) {
	ts, err := lex(src)
	if err != nil {
		return nil, err
	}
	p := &parser{ts: ts}
	e, err := p.parseQuant()
	if err != nil {
		return nil, err
	}
	if p.peek().k != "eof" {
		return nil, fmt.Errorf("trailing input at %q", p.peek().s)
	}
	return e, nil
}

func (p *parser) parseQuant() (Expr, error) {
	t := p.peek()
	if t.k == "id" && (t.s == "forall" || t.s == "exists") {
		p.next()
		var vars []SpecParam
		for {
			nm := p.next()
			if nm.k != "id" {
				return nil, fmt.Errorf("expected variable name in quantifier")
			}
			if err := p.expectOp(":"); err != nil {
				return nil, err
			}
			ty, err := p.parseTypeName()
			if err != nil {
				return nil, err
			}
			vars = append(vars, SpecParam{nm.s, ty})
			if p.isOp(",") {
				p.next()
				continue
			}
			break
		}
		var trigs []Expr
		if p.isOp("{") {
			p.next()
			for {
				te, err := p.parseAdd()
				if err != nil {
					return nil, err
				}
				trigs = append(trigs, te)
				if p.isOp(",") {
					p.next()
					continue
				}
				break
			}
			if err := p.expectOp("}"); err != nil {
				return nil, err
			}
		}
		if err := p.expectOp("::"); err != nil {
			return nil, err
		}
		body, err := p.parseQuant()
		if err != nil {
			return nil, err
		}
		return &EQuant{Forall: t.s == "forall", Vars: vars, Triggers: trigs, Body: body}, nil
	}
	return p.parseIff()
}

func (p *parser) parseTypeName() (string, error) {
	s := ""
	if p.isOp("*") {
		p.next()
		s = "*"
	}
	if p.isOp("[") {
		p.next()
		if err := p.expectOp("]"); err != nil {
			return "", err
		}
		s += "[]"
	}
	t := p.next()
	if t.k != "id" {
		return "", fmt.Errorf("expected type name, got %q", t.s)
	}
	s += t.s
	if p.isOp(".") {
		p.next()
		t2 := p.next()
		s += "." + t2.s
	}
	return s, nil
}

func (p *parser) parseIff() (Expr, error) {
	x, err := p.parseImpl()
	if err != nil {
		return nil, err
	}
	for p.isOp("<==>") {
		p.next()
		y, err := p.parseImpl()
		if err != nil {
			return nil, err
		}
		x = &EBinary{"<==>", x, y}
	}
	return x, nil
}

func (p *parser) parseImpl() (Expr, error) {
	x, err := p.parseOr()
	if err != nil {
		return nil, err
	}
	if p.isOp("==>") {
		p.next()
		// right-assoc; the right side may be a quantifier
		y, err := p.parseImplRhs()
		if err != nil {
			return nil, err
		}
		return &EBinary{"==>", x, y}, nil
	}
	return x, nil
}

func (p *parser) parseImplRhs() (Expr, error) {
	t := p.peek()
	if t.k == "id" && (t.s == "forall" || t.s == "exists") {
		return p.parseQuant()
	}
	return p.parseImpl()
}

func (p *parser) parseOr() (Expr, error) {
	x, err := p.parseAnd()
	if err != nil {
		return nil, err
	}
	for p.isOp("||") {
		p.next()
		y, err := p.parseAnd()
		if err != nil {
			return nil, err
		}
		x = &EBinary{"||", x, y}
	}
	return x, nil
}

func (p *parser) parseAnd() (Expr, error) {
	x, err := p.parseCmp()
	if err != nil {
		return nil, err
	}
	for p.isOp("&&") {
		p.next()
		y, err := p.parseCmp()
		if err != nil {
			return nil, err
		}
		x = &EBinary{"&&", x, y}
	}
	return x, nil
}

func (p *parser) parseCmp() (Expr, error) {
	t := p.peek()
	if t.k == "id" && (t.s == "forall" || t.s == "exists") {
		return p.parseQuant()
	}
	x, err := p.parseAdd()
	if err != nil {
		return nil, err
	}
	for _, op := range []string{"==", "!=", "<=", ">=", "<", ">"} {
		if p.isOp(op) {
			p.next()
			y, err := p.parseAdd()
			if err != nil {
				return nil, err
			}
			return &EBinary{op, x, y}, nil
		}
	}
	return x, nil
}

func (p *parser) parseAdd() (Expr, error) {
	x, err := p.parseMul()
	if err != nil {
		return nil, err
	}
	for p.isOp("+") || p.isOp("-") {
		op := p.next().s
		y, err := p.parseMul()
		if err != nil {
			return nil, err
		}
		x = &EBinary{op, x, y}
	}
	return x, nil
}

func (p *parser) parseMul() (Expr, error) {
	x, err := p.parseUnary()
	if err != nil {
		return nil, err
	}
	for p.isOp("*") || p.isOp("/") || p.isOp("%") {
		op := p.next().s
		y, err := p.parseUnary()
		if err != nil {
			return nil, err
		}
		x = &EBinary{op, x, y}
	}
	return x, nil
}

func (p *parser) parseUnary() (Expr, error) {
	if p.isOp("!") || p.isOp("-") {
		op := p.next().s
		x, err := p.parseUnary()
		if err != nil {
			return nil, err
		}
		return &EUnary{op, x}, nil
	}
	return p.parsePostfix()
}

func (p *parser) parsePostfix() (Expr, error) {
	x, err := p.parsePrimary()
	if err != nil {
		return nil, err
	}
	for {
		switch {
		case p.isOp("."):
			p.next()
			t := p.next()
			if t.k != "id" {
				return nil, fmt.Errorf("expected field name after '.'")
			}
			x = &EField{x, t.s}
		case p.isOp("["):
			p.next()
			var lo Expr
			if !p.isOp(":") {
				lo, err = p.parseAdd()
				if err != nil {
					return nil, err
				}
			}
			if p.isOp(":") {
				p.next()
				var hi Expr
				if !p.isOp("]") {
					hi, err = p.parseAdd()
					if err != nil {
						return nil, err
					}
				}
				if err := p.expectOp("]"); err != nil {
					return nil, err
				}
				x = &ESlice{x, lo, hi}
			} else {
				if err := p.expectOp("]"); err != nil {
					return nil, err
				}
				x = &EIndex{x, lo}
			}
		default:
			return x, nil
		}
	}
}

func (p *parser) parsePrimary() (Expr, error) {
	t := p.next()
	switch t.k {
	case "int":
		return &EInt{t.s}, nil
	case "str":
		return &EStr{t.s}, nil
	case "id":
		switch t.s {
		case "true":
			return &EBool{true}, nil
		case "false":
			return &EBool{false}, nil
		case "nil":
			return &ENil{}, nil
		}
		if p.isOp("(") {
			p.next()
			var args []Expr
			for !p.isOp(")") {
				a, err := p.parseQuant()
				if err != nil {
					return nil, err
				}
				args = append(args, a)
				if p.isOp(",") {
					p.next()
				} else if !p.isOp(")") {
					return nil, fmt.Errorf("expected ',' or ')' in call")
				}
			}
			p.next()
			if t.s == "old" {
				if len(args) != 1 {
					return nil, fmt.Errorf("old takes one argument")
				}
				return &EOld{args[0]}, nil
			}
			return &ECall{t.s, args}, nil
		}
		return &EIdent{t.s}, nil
	case "op":
		if t.s == "(" {
			e, err := p.parseQuant()
			if err != nil {
				return nil, err
			}
			if err := p.expectOp(")"); err != nil {
				return nil, err
			}
			return e, nil
		}
	}
	return nil, fmt.Errorf("unexpected token %q", t.s)
}

// clauseProps: the properties an obligation generated from clause cl counts for.
func clauseProps(cl *Clause, dflt []string) []string {
	if len(cl.Props) > 0 {
		return cl.Props
	}
	return dflt
}
