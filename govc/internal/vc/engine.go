package vc

import (
	"fmt"
	"go/token"
	"go/types"
	"os"
	"path/filepath"
	"sort"
	"strings"

	"golang.org/x/tools/go/packages"
	"golang.org/x/tools/go/ssa"
	"golang.org/x/tools/go/ssa/ssautil"
)

const ModPath = "github.com/aperturerobotics/util"

// Engine holds the loaded program and all contracts.
type Engine struct {
	Prog   *ssa.Program
	Fset   *token.FileSet
	SPkgs  map[string]*ssa.Package
	TPkgs  map[string]*packages.Package
	Specs  map[string]*PkgSpec
	RepoDir string

	Obls        []*Obligation
	Assumptions map[string]bool
	Strip       bool // ContractOf returns contracts without functional clauses (C13 fallback when they no longer match)
	stripped    map[*FuncContract]*FuncContract
	Externals   map[string]bool // callees without contract, treated as unconstrained
	PanicAssumed int
	FuncsVerified []string
	Errors      []string // engine-level problems (unsupported constructs etc.)
}

// Obligation is one proof obligation, self-contained.
type Obligation struct {
	Name   string
	Props  []string
	Kind   string
	Func   string
	SMT    string // complete smt2 text
	SMTFocus string // same obligation with only the quantified assumptions that mention the goal's symbols (sound: fewer hypotheses)
	Desc   string // human-readable goal
	Vars   map[string]string // model variables of interest: label -> smt term
	Inputs []InputSpec
	Encoding string
	Static bool // decided by the engine's lock-set analysis, not by a solver
	Pkg    string
	Result string // "unsat","sat","unknown","timeout","error"
	Solver string
	Ms     int64
	Model  string
	Output string
}

// Load loads the given package patterns of the repository with the verif tag.
func Load(repoDir string, patterns []string) (*Engine, error) {
	cfg := &packages.Config{
		Mode:       packages.LoadAllSyntax,
		Dir:        repoDir,
		BuildFlags: []string{"-tags=verif"},
		Env:        append(os.Environ(), "GOFLAGS=-mod=mod", "GOPROXY=off", "GOSUMDB=off", "GOTOOLCHAIN=local"),
	}
	pkgs, err := packages.Load(cfg, patterns...)
	if err != nil {
		return nil, err
	}
	var errs []string
	packages.Visit(pkgs, nil, func(p *packages.Package) {
		for _, e := range p.Errors {
			errs = append(errs, e.Error())
		}
	})
	if len(errs) > 0 {
		return nil, fmt.Errorf("package load errors: %s", strings.Join(errs, "; "))
	}
	prog, _ := ssautil.AllPackages(pkgs, ssa.GlobalDebug)
	prog.Build()
	e := &Engine{Prog: prog, SPkgs: map[string]*ssa.Package{}, TPkgs: map[string]*packages.Package{},
		Specs: map[string]*PkgSpec{}, RepoDir: repoDir, Assumptions: map[string]bool{}, Externals: map[string]bool{}}
	packages.Visit(pkgs, nil, func(p *packages.Package) {
		e.TPkgs[p.PkgPath] = p
		if sp := prog.Package(p.Types); sp != nil {
			e.SPkgs[p.PkgPath] = sp
		}
		if e.Fset == nil {
			e.Fset = p.Fset
		}
	})
	// parse contract files of every repo package that was loaded
	for path, p := range e.TPkgs {
		if !strings.HasPrefix(path, ModPath) {
			continue
		}
		ps := &PkgSpec{}
		found := false
		for _, f := range p.GoFiles {
			if strings.HasPrefix(filepath.Base(f), "verif_contracts") {
				if err := ParseSpecFile(f, path, ps); err != nil {
					return nil, err
				}
				found = true
			}
		}
		if found {
			e.Specs[path] = ps
		}
	}
	return e, nil
}

// shortPkg turns a package path into its short form relative to the module.
func shortPkg(path string) string {
	if strings.HasPrefix(path, ModPath+"/") {
		return path[len(ModPath)+1:]
	}
	return path
}

// FuncKey returns the contract key for an SSA function: "Name", "(*T).M", "(T).M", with "$k" for closures.
func FuncKey(fn *ssa.Function) string {
	if fn.Parent() != nil {
		// anonymous: parent key + "$" + ordinal (1-based) among parent's AnonFuncs
		p := fn.Parent()
		for i, a := range p.AnonFuncs {
			if a == fn {
				return fmt.Sprintf("%s$%d", FuncKey(p), i+1)
			}
		}
		return FuncKey(p) + "$?"
	}
	if fn.Signature.Recv() != nil {
		rt := fn.Signature.Recv().Type()
		ptr := false
		if p, ok := rt.(*types.Pointer); ok {
			ptr = true
			rt = p.Elem()
		}
		name := "?"
		if n, ok := rt.(*types.Named); ok {
			name = n.Obj().Name()
		}
		if ptr {
			return fmt.Sprintf("(*%s).%s", name, fn.Name())
		}
		return fmt.Sprintf("(%s).%s", name, fn.Name())
	}
	return fn.Name()
}

func fnPkgPath(fn *ssa.Function) string {
	for f := fn; f != nil; f = f.Parent() {
		if f.Pkg != nil {
			return f.Pkg.Pkg.Path()
		}
		if o := f.Origin(); o != nil && o.Pkg != nil {
			return o.Pkg.Pkg.Path()
		}
		if f.Object() != nil && f.Object().Pkg() != nil {
			return f.Object().Pkg().Path()
		}
	}
	return ""
}

// ContractOf returns the contract of fn, if any.
func (e *Engine) ContractOf(fn *ssa.Function) *FuncContract {
	if fn == nil {
		return nil
	}
	if o := fn.Origin(); o != nil {
		fn = o
	}
	ps := e.Specs[fnPkgPath(fn)]
	if ps == nil {
		return nil
	}
	ct := ps.Funcs[FuncKey(fn)]
	if e.Strip && ct != nil {
		return e.Stripped(ct)
	}
	return ct
}

// Stripped returns the contract without its functional clauses (assertions, postconditions, ghost statements,
// loop invariants): what remains - options, helper/closure structure, preconditions - is what the
// lock-discipline obligations are generated from.
func (e *Engine) Stripped(ct *FuncContract) *FuncContract {
	if e.stripped == nil {
		e.stripped = map[*FuncContract]*FuncContract{}
	}
	if s, ok := e.stripped[ct]; ok {
		return s
	}
	c2 := *ct
	c2.Asserts, c2.Ensures, c2.Ghost, c2.Loops, c2.AssumesAt = nil, nil, nil, nil, nil
	e.stripped[ct] = &c2
	return &c2
}

// LookupFunc finds an SSA function by contract key in a package.
func (e *Engine) LookupFunc(pkgPath, key string) *ssa.Function {
	sp := e.SPkgs[pkgPath]
	if sp == nil {
		return nil
	}
	base, closurePath := key, ""
	if i := strings.Index(key, "$"); i >= 0 {
		base, closurePath = key[:i], key[i:]
	}
	var fn *ssa.Function
	if strings.HasPrefix(base, "(") {
		// method
		r := strings.Index(base, ")")
		recv := base[1:r]
		mname := base[r+2:]
		ptr := strings.HasPrefix(recv, "*")
		recv = strings.TrimPrefix(recv, "*")
		tn, ok := sp.Pkg.Scope().Lookup(recv).(*types.TypeName)
		if !ok {
			return nil
		}
		named, ok := tn.Type().(*types.Named)
		if !ok {
			return nil
		}
		for i := 0; i < named.NumMethods(); i++ {
			m := named.Method(i)
			if m.Name() == mname {
				_, isPtr := m.Type().(*types.Signature).Recv().Type().(*types.Pointer)
				if isPtr == ptr {
					fn = e.Prog.FuncValue(m)
				}
			}
		}
	} else {
		if f, ok := sp.Members[base].(*ssa.Function); ok {
			fn = f
		}
	}
	if fn == nil {
		return nil
	}
	for closurePath != "" {
		closurePath = closurePath[1:]
		j := strings.Index(closurePath, "$")
		part := closurePath
		if j >= 0 {
			part, closurePath = closurePath[:j], closurePath[j:]
		} else {
			closurePath = ""
		}
		var n int
		fmt.Sscanf(part, "%d", &n)
		if n < 1 || n > len(fn.AnonFuncs) {
			return nil
		}
		fn = fn.AnonFuncs[n-1]
	}
	return fn
}

func (e *Engine) assume(s string) { e.Assumptions[s] = true }

func (e *Engine) SortedAssumptions() []string {
	var xs []string
	for k := range e.Assumptions {
		xs = append(xs, k)
	}
	sort.Strings(xs)
	return xs
}

func (e *Engine) pos(p token.Pos) string {
	if !p.IsValid() {
		return "?"
	}
	ps := e.Fset.Position(p)
	return fmt.Sprintf("%s:%d", filepath.Base(ps.Filename), ps.Line)
}

// globalByName finds a package-level variable of any loaded package (e.g. context.Canceled).
func (e *Engine) globalByName(pkg, name string) *ssa.Global {
	for _, p := range e.Prog.AllPackages() {
		if p.Pkg.Path() == pkg {
			if g, ok := p.Members[name].(*ssa.Global); ok {
				return g
			}
		}
	}
	unsup("global %s.%s not loaded", pkg, name)
	return nil
}
