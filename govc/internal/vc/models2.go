package vc

import (
	"fmt"
	"go/types"

	"golang.org/x/tools/go/ssa"
)

// calls counts invocations of opaque function / interface values (ghost heap G:calls).
func (c *VCtx) bumpCalls(st *State, f *Term) {
	h := c.heap(st, "G:calls", ArrSort(SRef, SInt))
	c.setHeap(st, "G:calls", Store(h, f, Add(Select(h, f), IntLit(1))))
}

func (c *VCtx) cancelOf(f *Term) *Term {
	fn := c.declareFun("cancelOf", []Sort{SRef}, SRef)
	return T(SRef, fmt.Sprintf("(%s %s)", fn, f.S))
}

// cancelCtx: the context becomes cancelled no later than the next instant.
func (c *VCtx) cancelCtx(st *State, ctx *Term, guard *Term) {
	n := c.tick(st, c.ctxDone(ctx), true)
	ca := c.closedAt(c.ctxDone(ctx))
	c.fact(Implies(And(st.pc, guard), And(Ge(ca, IntLit(0)), Le(ca, n))))
}

func recvTerm(c *VCtx, args []Val) *Term { return c.asTerm(args[0]) }

func atomicFieldLoc(c *VCtx, recv *Term, tname string, sort Sort) *Loc {
	return &Loc{Kind: "field", Heap: "F:sync/atomic." + tname + ".v", Sort: sort, Base: recv}
}

func init() {
	// ---- sync.Mutex / RWMutex ----
	lockModel := func(name string, write bool) *model {
		return &model{name: name + ": mutual exclusion; critical sections are atomic with respect to each other",
			mods: func(c *VCtx, cc *ssa.CallCommon) map[string]Sort { return nil },
			run: func(c *VCtx, fr *Frame, st *State, cc *ssa.CallCommon, args []Val, res types.Type) Val {
				c.acquire(fr, st, recvTerm(c, args), write, cc.Pos())
				return nil
			}}
	}
	unlockModel := func(name string) *model {
		return &model{name: name, mods: noMods,
			run: func(c *VCtx, fr *Frame, st *State, cc *ssa.CallCommon, args []Val, res types.Type) Val {
				c.release(fr, st, recvTerm(c, args), cc.Pos())
				return nil
			}}
	}
	staticModels["(*sync.Mutex).Lock"] = lockModel("(*sync.Mutex).Lock", true)
	staticModels["(*sync.Mutex).Unlock"] = unlockModel("(*sync.Mutex).Unlock")
	staticModels["(*sync.RWMutex).Lock"] = lockModel("(*sync.RWMutex).Lock", true)
	staticModels["(*sync.RWMutex).Unlock"] = unlockModel("(*sync.RWMutex).Unlock")
	staticModels["(*sync.RWMutex).RLock"] = lockModel("(*sync.RWMutex).RLock", false)
	staticModels["(*sync.RWMutex).RUnlock"] = unlockModel("(*sync.RWMutex).RUnlock")
	staticModels["(*sync.Mutex).TryLock"] = &model{name: "(*sync.Mutex).TryLock: acquires iff it returns true", mods: func(c *VCtx, cc *ssa.CallCommon) map[string]Sort { return nil },
		run: func(c *VCtx, fr *Frame, st *State, cc *ssa.CallCommon, args []Val, res types.Type) Val {
			b := c.fresh("trylock", SBool)
			lock := recvTerm(c, args)
			c.acquire(fr, st, lock, true, cc.Pos())
			st.held[lock.S].tryCond = b
			return b
		}}

	// ---- sync/atomic ----
	for _, tn := range []string{"Int32", "Int64", "Uint32", "Uint64"} {
		tn := tn
		wrapOf := map[string]types.Type{"Int32": types.Typ[types.Int32], "Int64": types.Typ[types.Int64], "Uint32": types.Typ[types.Uint32], "Uint64": types.Typ[types.Uint64]}[tn]
		loc := func(c *VCtx, args []Val) *Loc {
			l := atomicFieldLoc(c, recvTerm(c, args), tn, SInt)
			l.GT = wrapOf
			return l
		}
		pre := "(*sync/atomic." + tn + ")."
		staticModels[pre+"Load"] = &model{name: pre + "Load (sequentially consistent)", mods: noMods,
			run: func(c *VCtx, fr *Frame, st *State, cc *ssa.CallCommon, args []Val, res types.Type) Val {
				c.atomicPoint(fr, st, loc(c, args))
				v := c.load(nil, st, loc(c, args), cc.Pos())
				c.lastAtomicRet = v
				c.atomicDone(fr, st, loc(c, args))
				return v
			}}
		staticModels[pre+"Store"] = &model{name: pre + "Store", mods: func(c *VCtx, cc *ssa.CallCommon) map[string]Sort {
			return map[string]Sort{"F:sync/atomic." + tn + ".v": ArrSort(SRef, SInt)}
		},
			run: func(c *VCtx, fr *Frame, st *State, cc *ssa.CallCommon, args []Val, res types.Type) Val {
				c.atomicPoint(fr, st, loc(c, args))
				c.store(nil, st, loc(c, args), args[1], cc.Pos())
				c.lastAtomicRet = nil
				c.atomicDone(fr, st, loc(c, args))
				return nil
			}}
		staticModels[pre+"Swap"] = &model{name: pre + "Swap", mods: func(c *VCtx, cc *ssa.CallCommon) map[string]Sort {
			return map[string]Sort{"F:sync/atomic." + tn + ".v": ArrSort(SRef, SInt)}
		},
			run: func(c *VCtx, fr *Frame, st *State, cc *ssa.CallCommon, args []Val, res types.Type) Val {
				c.atomicPoint(fr, st, loc(c, args))
				old := c.load(nil, st, loc(c, args), cc.Pos())
				c.store(nil, st, loc(c, args), args[1], cc.Pos())
				c.lastAtomicRet = old
				c.atomicDone(fr, st, loc(c, args))
				return old
			}}
		staticModels[pre+"Add"] = &model{name: pre + "Add (wraps around)", mods: func(c *VCtx, cc *ssa.CallCommon) map[string]Sort {
			return map[string]Sort{"F:sync/atomic." + tn + ".v": ArrSort(SRef, SInt)}
		},
			run: func(c *VCtx, fr *Frame, st *State, cc *ssa.CallCommon, args []Val, res types.Type) Val {
				c.atomicPoint(fr, st, loc(c, args))
				old := c.asTerm(c.load(nil, st, loc(c, args), cc.Pos()))
				nv := c.name("atadd", wrap(Add(old, c.asTerm(args[1])), wrapOf))
				nv.GT = wrapOf
				c.store(nil, st, loc(c, args), nv, cc.Pos())
				c.lastAtomicRet = nv
				c.atomicDone(fr, st, loc(c, args))
				return nv
			}}
		staticModels[pre+"CompareAndSwap"] = &model{name: pre + "CompareAndSwap", mods: func(c *VCtx, cc *ssa.CallCommon) map[string]Sort {
			return map[string]Sort{"F:sync/atomic." + tn + ".v": ArrSort(SRef, SInt)}
		},
			run: func(c *VCtx, fr *Frame, st *State, cc *ssa.CallCommon, args []Val, res types.Type) Val {
				c.atomicPoint(fr, st, loc(c, args))
				old := c.asTerm(c.load(nil, st, loc(c, args), cc.Pos()))
				ok := c.name("cas", Eq(old, c.asTerm(args[1])))
				c.store(nil, st, loc(c, args), Ite(ok, c.asTerm(args[2]), old), cc.Pos())
				c.lastAtomicRet = ok
				c.atomicDone(fr, st, loc(c, args))
				return ok
			}}
	}
	{
		// atomic.Bool: field v uint32 (0/1)
		loc := func(c *VCtx, args []Val) *Loc {
			l := atomicFieldLoc(c, recvTerm(c, args), "Bool", SInt)
			l.GT = types.Typ[types.Uint32]
			return l
		}
		b2i := func(b *Term) *Term { return Ite(b, IntLit(1), IntLit(0)) }
		mods := func(c *VCtx, cc *ssa.CallCommon) map[string]Sort {
			return map[string]Sort{"F:sync/atomic.Bool.v": ArrSort(SRef, SInt)}
		}
		pre := "(*sync/atomic.Bool)."
		staticModels[pre+"Load"] = &model{name: pre + "Load", mods: noMods,
			run: func(c *VCtx, fr *Frame, st *State, cc *ssa.CallCommon, args []Val, res types.Type) Val {
				c.atomicPoint(fr, st, loc(c, args))
				v := c.name("aload", Not(Eq(c.asTerm(c.load(nil, st, loc(c, args), cc.Pos())), IntLit(0))))
				c.lastAtomicRet = v
				c.atomicDone(fr, st, loc(c, args))
				return v
			}}
		staticModels[pre+"Store"] = &model{name: pre + "Store", mods: mods,
			run: func(c *VCtx, fr *Frame, st *State, cc *ssa.CallCommon, args []Val, res types.Type) Val {
				c.atomicPoint(fr, st, loc(c, args))
				c.store(nil, st, loc(c, args), b2i(c.asTerm(args[1])), cc.Pos())
				c.lastAtomicRet = nil
				c.atomicDone(fr, st, loc(c, args))
				return nil
			}}
		staticModels[pre+"Swap"] = &model{name: pre + "Swap", mods: mods,
			run: func(c *VCtx, fr *Frame, st *State, cc *ssa.CallCommon, args []Val, res types.Type) Val {
				c.atomicPoint(fr, st, loc(c, args))
				old := Not(Eq(c.asTerm(c.load(nil, st, loc(c, args), cc.Pos())), IntLit(0)))
				old = c.name("aswap", old)
				c.store(nil, st, loc(c, args), b2i(c.asTerm(args[1])), cc.Pos())
				c.lastAtomicRet = old
				c.atomicDone(fr, st, loc(c, args))
				return old
			}}
		staticModels[pre+"CompareAndSwap"] = &model{name: pre + "CompareAndSwap", mods: mods,
			run: func(c *VCtx, fr *Frame, st *State, cc *ssa.CallCommon, args []Val, res types.Type) Val {
				c.atomicPoint(fr, st, loc(c, args))
				old := Not(Eq(c.asTerm(c.load(nil, st, loc(c, args), cc.Pos())), IntLit(0)))
				ok := c.name("cas", Eq(old, c.asTerm(args[1])))
				c.store(nil, st, loc(c, args), b2i(Ite(ok, c.asTerm(args[2]), old)), cc.Pos())
				c.lastAtomicRet = ok
				c.atomicDone(fr, st, loc(c, args))
				return ok
			}}
	}
	{
		// atomic.Pointer[T]: field v unsafe.Pointer
		loc := func(c *VCtx, args []Val) *Loc {
			return atomicFieldLoc(c, recvTerm(c, args), "Pointer", SRef)
		}
		mods := func(c *VCtx, cc *ssa.CallCommon) map[string]Sort {
			return map[string]Sort{"F:sync/atomic.Pointer.v": ArrSort(SRef, SRef)}
		}
		pre := "(*sync/atomic.Pointer[T])."
		staticModels[pre+"Load"] = &model{name: pre + "Load", mods: noMods,
			run: func(c *VCtx, fr *Frame, st *State, cc *ssa.CallCommon, args []Val, res types.Type) Val {
				c.atomicPoint(fr, st, loc(c, args))
				v := c.asTerm(c.load(nil, st, loc(c, args), cc.Pos()))
				c.lastAtomicRet = v
				c.atomicDone(fr, st, loc(c, args))
				return c.typed(TG(SRef, res, v.S), res)
			}}
		staticModels[pre+"Store"] = &model{name: pre + "Store", mods: mods,
			run: func(c *VCtx, fr *Frame, st *State, cc *ssa.CallCommon, args []Val, res types.Type) Val {
				c.atomicPoint(fr, st, loc(c, args))
				c.store(nil, st, loc(c, args), c.asTerm(args[1]), cc.Pos())
				c.lastAtomicRet = nil
				c.atomicDone(fr, st, loc(c, args))
				return nil
			}}
		staticModels[pre+"Swap"] = &model{name: pre + "Swap", mods: mods,
			run: func(c *VCtx, fr *Frame, st *State, cc *ssa.CallCommon, args []Val, res types.Type) Val {
				c.atomicPoint(fr, st, loc(c, args))
				old := c.asTerm(c.load(nil, st, loc(c, args), cc.Pos()))
				c.store(nil, st, loc(c, args), c.asTerm(args[1]), cc.Pos())
				c.lastAtomicRet = old
				c.atomicDone(fr, st, loc(c, args))
				return c.typed(TG(SRef, res, old.S), res)
			}}
		staticModels[pre+"CompareAndSwap"] = &model{name: pre + "CompareAndSwap", mods: mods,
			run: func(c *VCtx, fr *Frame, st *State, cc *ssa.CallCommon, args []Val, res types.Type) Val {
				c.atomicPoint(fr, st, loc(c, args))
				old := c.asTerm(c.load(nil, st, loc(c, args), cc.Pos()))
				ok := c.name("cas", Eq(old, c.asTerm(args[1])))
				c.store(nil, st, loc(c, args), Ite(ok, c.asTerm(args[2]), old), cc.Pos())
				c.lastAtomicRet = ok
				c.atomicDone(fr, st, loc(c, args))
				return ok
			}}
	}

	// ---- context ----
	staticModels["context.Background"] = &model{name: "context.Background() is never cancelled", mods: noMods,
		run: func(c *VCtx, fr *Frame, st *State, cc *ssa.CallCommon, args []Val, res types.Type) Val {
			bg := c.declare("ctx!background", SRef)
			c.fact(And(Not(Eq(bg, Null)), Lt(c.closedAt(c.ctxDone(bg)), IntLit(0))))
			return TG(SRef, res, bg.S)
		}}
	staticModels["context.TODO"] = staticModels["context.Background"]
	staticModels["context.WithCancel"] = &model{name: "context.WithCancel(p): fresh child, cancelled when p is or when cancel is called; cancel is idempotent", mods: noMods,
		run: func(c *VCtx, fr *Frame, st *State, cc *ssa.CallCommon, args []Val, res types.Type) Val {
			p := c.asTerm(args[0])
			c.safety(fr, st, "nilctx", Not(Eq(p, Null)), cc.Pos())
			ch := c.freshRef(st, "ctx")
			ch.GT = res.(*types.Tuple).At(0).Type()
			pa, ca := c.closedAt(c.ctxDone(p)), c.closedAt(c.ctxDone(ch))
			// child cancelled no later than the parent; not yet cancelled unless the parent already is
			c.fact(Implies(Ge(pa, IntLit(0)), And(Ge(ca, IntLit(0)), Le(ca, pa))))
			c.fact(Implies(Not(c.isClosed(st, c.ctxDone(p))), Not(c.isClosed(st, c.ctxDone(ch)))))
			c.fact(Eq(c.ctxParent(ch), p))
			cf := c.freshRef(st, "cancel")
			cf.GT = res.(*types.Tuple).At(1).Type()
			c.fact(Eq(c.cancelOf(cf), ch))
			return Tuple{ch, cf}
		}}
	invokeModels["context.Context.Done"] = &model{name: "ctx.Done() is closed exactly when ctx is cancelled", mods: noMods,
		run: func(c *VCtx, fr *Frame, st *State, cc *ssa.CallCommon, args []Val, res types.Type) Val {
			ctx := c.asTerm(args[0])
			c.safety(fr, st, "nilctx", Not(Eq(ctx, Null)), cc.Pos())
			return TG(SRef, res, c.ctxDone(ctx).S)
		}}
	invokeModels["context.Context.Err"] = &model{name: "ctx.Err() != nil exactly when ctx is cancelled; the value is context.Canceled or context.DeadlineExceeded", mods: func(c *VCtx, cc *ssa.CallCommon) map[string]Sort { return map[string]Sort{"G:now": SInt} },
		run: func(c *VCtx, fr *Frame, st *State, cc *ssa.CallCommon, args []Val, res types.Type) Val {
			ctx := c.asTerm(args[0])
			c.safety(fr, st, "nilctx", Not(Eq(ctx, Null)), cc.Pos())
			c.observe(st)
			fn := c.declareFun("ctxerr", []Sort{SRef}, SRef)
			e := T(SRef, fmt.Sprintf("(%s %s)", fn, ctx.S))
			c.fact(Not(Eq(e, Null)))
			return TG(SRef, res, c.name("cerr", Ite(c.isClosed(st, c.ctxDone(ctx)), e, Null)).S)
		}}

	// ---- promise.PromiseLike (interface contract taken from the property statement C11 and the interface's doc) ----
	awaitModel := func(method string) *model {
		return &model{name: "promise.PromiseLike." + method + ": blocks while the promise has no result, ctx is live and the extra channel has not fired; returns the promise's (value, error) when it completes by result, context.Canceled otherwise",
			mods: func(c *VCtx, cc *ssa.CallCommon) map[string]Sort {
				return map[string]Sort{"G:now": SInt, "G:recvs": ArrSort(SRef, SInt)}
			},
			run: func(c *VCtx, fr *Frame, st *State, cc *ssa.CallCommon, args []Val, res types.Type) Val {
				p := c.asTerm(args[0])
				ctx := c.asTerm(args[1])
				c.safety(fr, st, "nilderef", Not(Eq(p, Null)), cc.Pos())
				c.safety(fr, st, "nilctx", Not(Eq(ctx, Null)), cc.Pos())
				c.blockingPoint(fr, st, cc.Pos())
				c.curSelectChans = []*Term{c.ctxDone(ctx)}
				var extra *Term
				if len(args) > 2 {
					extra = c.asTerm(args[2])
					c.curSelectChans = append(c.curSelectChans, extra)
				}
				c.curSelectBlocking = true
				fr.invokes++
				c.pointAsserts(fr, st, fmt.Sprintf("invoke %d", fr.invokes), cc.Pos())
				c.observe(st)
				tup := res.(*types.Tuple)
				val := c.freshVal("pv", tup.At(0).Type())
				err := c.asTerm(c.freshVal("perr", tup.At(1).Type()))
				c.knownAll(st, val)
				c.known(st, err)
				byres := c.fresh("byresult", SBool)
				canceled := c.asTerm(c.globalVal(c.eng.globalByName("context", "Canceled")))
				woke := c.isClosed(st, c.ctxDone(ctx))
				if extra != nil {
					et := cc.Args[1].Type().Underlying().(*types.Chan).Elem()
					if isEmptyStruct(et) {
						woke = Or(woke, And(Not(Eq(extra, Null)), c.isClosed(st, extra)))
					} else {
						// a value channel: fired = this call received from it
						rh := c.heap(st, "G:recvs", ArrSort(SRef, SInt))
						got := c.fresh("gotextra", SBool)
						c.fact(Implies(got, Not(Eq(extra, Null))))
						c.setHeap(st, "G:recvs", Ite(got, Store(rh, extra, Add(Select(rh, extra), IntLit(1))), rh))
						woke = Or(woke, got)
						// the error received from the channel is returned as is (nil is possible only if the sender sent nil)
						canceled = nil
					}
				}
				c.fact(Implies(And(st.pc, byres), c.isResolved(st, p)))
				if vt, ok := val.(*Term); ok {
					c.fact(Implies(And(st.pc, byres), Eq(vt, c.resVal(p, vt.Sort))))
				}
				c.fact(Implies(And(st.pc, byres), Eq(err, c.resErr(p))))
				c.fact(Implies(And(st.pc, Not(byres)), woke))
				if canceled != nil {
					c.fact(Implies(And(st.pc, Not(byres)), Eq(err, canceled)))
				}
				return Tuple{val, err}
			}}
	}
	for _, m := range []string{"Await", "AwaitWithCancelCh", "AwaitWithErrCh"} {
		invokeModels[ModPath+"/promise.PromiseLike."+m] = awaitModel(m)
	}

	// ---- io ----
	rw := func(name string, writesBuf bool) *model {
		return &model{name: name + "(p) returns 0 <= n <= len(p) and an error; only p[0:len(p)] may be written", mods: func(c *VCtx, cc *ssa.CallCommon) map[string]Sort {
			m := map[string]Sort{"G:calls": ArrSort(SRef, SInt)}
			if writesBuf {
				m[elemHeapName(SInt)] = ArrSort(SRef, ArrSort(SInt, SInt))
			}
			return m
		},
			run: func(c *VCtx, fr *Frame, st *State, cc *ssa.CallCommon, args []Val, res types.Type) Val {
				recv := c.asTerm(args[0])
				c.safety(fr, st, "nilderef", Not(Eq(recv, Null)), cc.Pos())
				c.bumpCalls(st, recv)
				p := c.asTerm(args[1])
				if writesBuf {
					c.havocRange(st, SInt, p)
				}
				n := c.fresh("ion", SInt)
				n.GT = types.Typ[types.Int]
				c.fact(And(Ge(n, IntLit(0)), Le(n, SlLen(p))))
				e := c.fresh("ioerr", SRef)
				c.known(st, e)
				k := len(c.envVals)/2 + 1
				c.envVals = append(c.envVals, InputSpec{Name: fmt.Sprintf("env.io%d.n", k), Kind: "int", Term: n.S},
					InputSpec{Name: fmt.Sprintf("env.io%d.err", k), Kind: "ref", Term: e.S})
				if len(args) > 2 {
					// ReadAt(p, off): bounded by the amount of data behind the reader
					off := c.asTerm(args[2])
					dl := c.dataLen(recv)
					c.fact(And(Implies(Le(off, dl), Le(Add(off, n), dl)), Implies(Gt(off, dl), Eq(n, IntLit(0)))))
				}
				return Tuple{n, TG(SRef, types.Universe.Lookup("error").Type(), e.S)}
			}}
	}
	invokeModels["io.Reader.Read"] = rw("io.Reader.Read", true)
	invokeModels["io.Writer.Write"] = rw("io.Writer.Write", false)
	invokeModels["io.ReaderAt.ReadAt"] = rw("io.ReaderAt.ReadAt (never returns data beyond datalen(r))", true)

	// ---- hashing / chacha (abstract, deterministic) ----
	staticModels["crypto/sha256.New"] = &model{name: "crypto/sha256.New() returns a fresh hash in the initial state hinit", mods: func(c *VCtx, cc *ssa.CallCommon) map[string]Sort {
		return map[string]Sort{"G:hstate": ArrSort(SRef, SInt)}
	},
		run: func(c *VCtx, fr *Frame, st *State, cc *ssa.CallCommon, args []Val, res types.Type) Val {
			h := c.freshRef(st, "hash")
			h.GT = res
			hs := c.heap(st, "G:hstate", ArrSort(SRef, SInt))
			c.setHeap(st, "G:hstate", Store(hs, h, c.declare("hinit", SInt)))
			return h
		}}
	invokeModels["hash.Hash.Write"] = &model{name: "hash.Hash.Write(p) absorbs the byte sequence p: state' = absorb(state, canon(p)); returns (len(p), nil)", mods: func(c *VCtx, cc *ssa.CallCommon) map[string]Sort {
		return map[string]Sort{"G:hstate": ArrSort(SRef, SInt)}
	},
		run: func(c *VCtx, fr *Frame, st *State, cc *ssa.CallCommon, args []Val, res types.Type) Val {
			h, p := c.asTerm(args[0]), c.asTerm(args[1])
			c.safety(fr, st, "nilderef", Not(Eq(h, Null)), cc.Pos())
			hs := c.heap(st, "G:hstate", ArrSort(SRef, SInt))
			eh := c.heap(st, elemHeapName(SInt), ArrSort(SRef, ArrSort(SInt, SInt)))
			fn := c.declareFun("absorb", []Sort{SInt, SInt}, SInt)
			ns := T(SInt, fmt.Sprintf("(%s %s %s)", fn, Select(hs, h).S, c.canon(Select(eh, SlArr(p)), SlOff(p), SlLen(p)).S))
			c.setHeap(st, "G:hstate", Store(hs, h, ns))
			return Tuple{TG(SInt, types.Typ[types.Int], SlLen(p).S), Null}
		}}
	invokeModels["hash.Hash.Sum"] = &model{name: "hash.Hash.Sum(nil) returns a fresh slice holding digest(state)", mods: func(c *VCtx, cc *ssa.CallCommon) map[string]Sort {
		return map[string]Sort{elemHeapName(SInt): ArrSort(SRef, ArrSort(SInt, SInt)), "G:alloc": ArrSort(SRef, SBool)}
	},
		run: func(c *VCtx, fr *Frame, st *State, cc *ssa.CallCommon, args []Val, res types.Type) Val {
			h, b := c.asTerm(args[0]), c.asTerm(args[1])
			c.safety(fr, st, "nilderef", Not(Eq(h, Null)), cc.Pos())
			if b.S != "nil_slice" {
				unsup("hash.Sum with a non-nil prefix")
			}
			hs := c.heap(st, "G:hstate", ArrSort(SRef, SInt))
			arr := c.freshRef(st, "arr")
			fn := c.declareFun("digest", []Sort{SInt}, ArrSort(SInt, SInt))
			eh := c.heap(st, elemHeapName(SInt), ArrSort(SRef, ArrSort(SInt, SInt)))
			c.setHeap(st, elemHeapName(SInt), Store(eh, arr, T(ArrSort(SInt, SInt), fmt.Sprintf("(%s %s)", fn, Select(hs, h).S))))
			n := c.fresh("dlen", SInt)
			c.fact(And(Ge(n, IntLit(0)), Le(n, IntLit(64))))
			if fnm := c.declareFun("digestlen", nil, SInt); fnm != "" {
				c.fact(Eq(n, T(SInt, fnm)))
			}
			return MkSlice(arr, IntLit(0), n, n, res)
		}}
	staticModels["math/rand/v2.NewChaCha8"] = &model{name: "rand.NewChaCha8(seed) returns a fresh source whose stream U(src, .) is a function of the seed bytes srcseed(src) alone", mods: func(c *VCtx, cc *ssa.CallCommon) map[string]Sort {
		return map[string]Sort{"G:srccnt": ArrSort(SRef, SInt), "G:alloc": ArrSort(SRef, SBool)}
	},
		run: func(c *VCtx, fr *Frame, st *State, cc *ssa.CallCommon, args []Val, res types.Type) Val {
			seed := c.asTerm(args[0])
			src := c.freshRef(st, "src")
			src.GT = res
			kf := c.declareFun("srcseed", []Sort{SRef}, ArrSort(SInt, SInt))
			c.fact(T(SBool, fmt.Sprintf("(= (%s %s) %s)", kf, src.S, seed.S)))
			h := c.heap(st, "G:srccnt", ArrSort(SRef, SInt))
			c.setHeap(st, "G:srccnt", Store(h, src, IntLit(0)))
			return src
		}}

	// ---- time ----
	staticModels["time.AfterFunc"] = &model{name: "time.AfterFunc(d, f): f runs once on its own goroutine at some later time unless stopped first", mods: noMods,
		run: func(c *VCtx, fr *Frame, st *State, cc *ssa.CallCommon, args []Val, res types.Type) Val {
			if fv, ok := args[1].(*FnVal); ok {
				c.spawn(fr, st, cc, fv, nil)
			}
			t := c.freshRef(st, "timer")
			t.GT = res
			return t
		}}
	staticModels["(*time.Timer).Stop"] = &model{name: "(*time.Timer).Stop", mods: noMods,
		run: func(c *VCtx, fr *Frame, st *State, cc *ssa.CallCommon, args []Val, res types.Type) Val {
			c.safety(fr, st, "nilderef", Not(Eq(c.asTerm(args[0]), Null)), cc.Pos())
			return c.fresh("stopped", SBool)
		}}

	// ---- math/rand/v2 ----
	invokeModels["math/rand/v2.Source.Uint64"] = &model{name: "rand.Source.Uint64 returns the next element of the source's deterministic sequence U(src, k)", mods: func(c *VCtx, cc *ssa.CallCommon) map[string]Sort {
		return map[string]Sort{"G:srccnt": ArrSort(SRef, SInt)}
	},
		run: func(c *VCtx, fr *Frame, st *State, cc *ssa.CallCommon, args []Val, res types.Type) Val {
			src := c.asTerm(args[0])
			c.safety(fr, st, "nilderef", Not(Eq(src, Null)), cc.Pos())
			h := c.heap(st, "G:srccnt", ArrSort(SRef, SInt))
			k := Select(h, src)
			fn := c.declareFun("U", []Sort{SRef, SInt}, SInt)
			v := c.name("u64", T(SInt, fmt.Sprintf("(%s %s %s)", fn, src.S, k.S)))
			v.GT = types.Typ[types.Uint64]
			c.fact(rangeFact(v, v.GT))
			c.setHeap(st, "G:srccnt", Store(h, src, Add(k, IntLit(1))))
			return v
		}}
}

func (c *VCtx) ctxParent(ctx *Term) *Term {
	fn := c.declareFun("ctxparent", []Sort{SRef}, SRef)
	if !c.declSet["ax:ctxparent"] {
		// a derived context is cancelled no later than the context it derives from
		c.declSet["ax:ctxparent"] = true
		c.declareFun("closedAt", []Sort{SRef}, SInt)
		c.declareFun("ctxdone", []Sort{SRef}, SRef)
		c.facts0(T(SBool, "(forall ((x Ref)) (! (=> (and (not (= (ctxparent x) null)) (>= (closedAt (ctxdone (ctxparent x))) 0)) (and (>= (closedAt (ctxdone x)) 0) (<= (closedAt (ctxdone x)) (closedAt (ctxdone (ctxparent x)))))) :pattern ((ctxparent x))))"))
	}
	return T(SRef, fmt.Sprintf("(%s %s)", fn, ctx.S))
}

func (c *VCtx) dataLen(r *Term) *Term {
	fn := c.declareFun("datalen", []Sort{SRef}, SInt)
	return T(SInt, fmt.Sprintf("(%s %s)", fn, r.S))
}

// havocRange: the elements p[0:len(p)] become arbitrary (bytes stay bytes); everything else is kept.
func (c *VCtx) havocRange(st *State, es Sort, p *Term) {
	hn := elemHeapName(es)
	hs := ArrSort(SRef, ArrSort(SInt, es))
	h := c.heap(st, hn, hs)
	na := c.fresh("A", ArrSort(SInt, es))
	oldA := Select(h, SlArr(p))
	c.defFact(na, T(SBool, fmt.Sprintf("(forall ((j Int)) (! (=> (not (and (<= (s-off %s) j) (< j (+ (s-off %s) (s-len %s))))) (= (select %s j) (select %s j))) :pattern ((select %s j))))",
		p.S, p.S, p.S, na.S, oldA.S, na.S)))
	c.setHeap(st, hn, Store(h, SlArr(p), na))
}

// atomicPoint / atomicDone bracket an atomic operation (an atomic action of its own when no lock is held).
func (c *VCtx) atomicPoint(fr *Frame, st *State, l *Loc) {
	c.atomicHook(fr, st, l, true)
}
func (c *VCtx) atomicDone(fr *Frame, st *State, l *Loc) {
	c.atomicHook(fr, st, l, false)
}

// resolvedAt(p): the instant at which promise-like p obtains its result (< 0: never); a prophecy like closedAt.
func (c *VCtx) isResolved(st *State, p *Term) *Term {
	fn := c.declareFun("resolvedAt", []Sort{SRef}, SInt)
	at := T(SInt, fmt.Sprintf("(%s %s)", fn, p.S))
	return And(Ge(at, IntLit(0)), Le(at, c.now(st)))
}

func (c *VCtx) resVal(p *Term, s Sort) *Term {
	fn := c.declareFun("resval!"+sanitize(string(s)), []Sort{SRef}, s)
	return T(s, fmt.Sprintf("(%s %s)", fn, p.S))
}

func (c *VCtx) resErr(p *Term) *Term {
	fn := c.declareFun("reserr", []Sort{SRef}, SRef)
	return T(SRef, fmt.Sprintf("(%s %s)", fn, p.S))
}
