package vc

import (
	"os"
	"fmt"
	"go/token"
	"go/types"
	"sort"
	"strings"

	"golang.org/x/tools/go/ssa"
)

// monitorRef links a held lock to the object spec it protects.
type monitorRef struct {
	spec  *ObjectSpec
	obj   *Term
	objT  types.Type // struct type of obj
	entry *State     // state right after acquire (for old() in trans clauses)
	owned bool       // entered while holding the lock of the monitor that owns this object
}

// ownedTarget: the object that field f of monitor m points to (current state), with its struct type.
func (c *VCtx) ownedTarget(st *State, m *monitorRef, f string) (*Term, types.Type) {
	stt, ok := m.objT.Underlying().(*types.Struct)
	if !ok {
		return nil, nil
	}
	for i := 0; i < stt.NumFields(); i++ {
		fd := stt.Field(i)
		if fd.Name() != f {
			continue
		}
		pt, ok := fd.Type().Underlying().(*types.Pointer)
		if !ok {
			return nil, nil
		}
		h := c.heap(st, fieldHeapName(m.objT, f), ArrSort(SRef, SRef))
		return Select(h, m.obj), pt.Elem()
	}
	return nil, nil
}

// ownedByHeld: is obj the target of an "owns" field of a monitor whose lock is held?
func (c *VCtx) ownedByHeld(st *State, obj *Term) bool {
	for _, h := range st.held {
		for _, m := range h.specs {
			for _, f := range m.spec.Owns {
				if t, _ := c.ownedTarget(st, m, f); t != nil && t.S == obj.S {
					return true
				} else if os.Getenv("GOVC_DEBUG") != "" && t != nil {
					fmt.Fprintf(os.Stderr, "ownedByHeld: %s vs %s\n", t.S, obj.S)
				}
			}
		}
	}
	return false
}

// havocOwned: the state of an owned object may have been changed by earlier holders of the owner's lock.
func (c *VCtx) havocOwned(st *State, m *monitorRef, f string) {
	t, et := c.ownedTarget(st, m, f)
	if t == nil {
		return
	}
	sp := c.objectSpec(et)
	if sp == nil {
		return
	}
	own, whole := c.guardedHeaps(sp, et)
	for _, hn := range own {
		hs := c.heapSorts[hn]
		cur := c.heap(st, hn, hs)
		_, vs := arrParts(hs)
		nv := c.fresh("hv", vs)
		c.wfValue(st, nv)
		st.heaps[hn] = c.name("h", Store(cur, t, nv))
	}
	seen := map[string]bool{}
	for _, hn := range whole {
		if !seen[hn] {
			seen[hn] = true
			c.havocHeap(st, hn)
		}
	}
	om := &monitorRef{spec: sp, obj: TG(SRef, types.NewPointer(et), t.S), objT: et}
	sc := c.objScope(om, st, st)
	for _, inv := range sp.Invs {
		c.factG(And(st.pc, Not(Eq(t, Null))), c.translateBool(sc, inv.E))
	}
}

// ---------- time and channels ----------

// now returns the current abstract time; closed(ch) is closedAt(ch) <= now. closedAt is an immutable
// (prophecy) function, so "closed" is monotone by construction and needs no quantified frame axioms.
func (c *VCtx) now(st *State) *Term {
	if t, ok := st.heaps["G:now"]; ok {
		return t
	}
	c.heapSorts["G:now"] = SInt
	t := c.declare(c.heapName("G:now", st.epoch), SInt)
	if !c.declSet["nowpos:"+t.S] {
		c.declSet["nowpos:"+t.S] = true
		c.facts0(Ge(t, IntLit(0)))
	}
	return t
}

func (c *VCtx) closedAt(ch *Term) *Term {
	fn := c.declareFun("closedAt", []Sort{SRef}, SInt)
	return T(SInt, fmt.Sprintf("(%s %s)", fn, ch.S))
}

// closedAt(ch) < 0 means "never closed".
func (c *VCtx) isClosed(st *State, ch *Term) *Term {
	return And(Ge(c.closedAt(ch), IntLit(0)), Le(c.closedAt(ch), c.now(st)))
}



// observe lets an arbitrary amount of time pass (other threads may have closed channels / cancelled contexts).
func (c *VCtx) observe(st *State) {
	c.observeWith(st, st.clone())
}

func (c *VCtx) observeWith(st *State, before *State) {
	old := c.now(st)
	n := c.fresh("now", SInt)
	c.fact(Ge(n, old))
	st.heaps["G:now"] = n
	c.sharedHavoc(st, before)
	c.stableFacts(before, st)
}

// stableFacts: predicates declared stable for monitors whose lock is held survive the passage of time
// (other threads cannot falsify them without the lock).
func (c *VCtx) stableFacts(before, after *State) {
	for _, h := range after.held {
		for _, m := range h.specs {
			for _, sc := range m.spec.Stable {
				b := c.translateBool(c.objScope(m, before, before), sc.E)
				a := c.translateBool(c.objScope(m, after, after), sc.E)
				c.fact(Implies(And(after.pc, b), a))
			}
		}
	}
}

// tick advances time by one step and returns the new time. The instant belongs to the caller's event:
// the only channel that becomes closed exactly at this instant is only (may be nil: none).
func (c *VCtx) tick(st *State, only *Term, byOthers bool) *Term {
	before := st.clone()
	old := c.now(st)
	n := c.fresh("now", SInt)
	c.defFact(n, Eq(n, Add(old, IntLit(1))))
	st.heaps["G:now"] = n
	fn := c.declareFun("closedAt", []Sort{SRef}, SInt)
	if only != nil {
		c.fact(T(SBool, fmt.Sprintf("(forall ((w Ref)) (! (=> (= (%s w) %s) (= w %s)) :pattern ((%s w))))", fn, n.S, only.S, fn)))
	} else {
		c.fact(T(SBool, fmt.Sprintf("(forall ((w Ref)) (! (not (= (%s w) %s)) :pattern ((%s w))))", fn, n.S, fn)))
	}
	if byOthers {
		// the event is not one of this package's own close() calls: stable predicates of held monitors survive
		c.stableFacts(before, st)
	}
	return n
}

// ---------- object specs ----------

func (c *VCtx) objectSpec(t types.Type) *ObjectSpec {
	if p, ok := t.(*types.Pointer); ok {
		t = p.Elem()
	}
	n, ok := t.(*types.Named)
	if !ok {
		return nil
	}
	n = n.Origin()
	if n.Obj().Pkg() == nil {
		return nil
	}
	ps := c.eng.Specs[n.Obj().Pkg().Path()]
	if ps == nil {
		return nil
	}
	return ps.Objects[n.Obj().Name()]
}

// protection of a struct field: "guarded", "atomic", "immutable", "" (type has no object spec), "undeclared".
type protection struct {
	kind  string
	spec  *ObjectSpec // spec that declares it
	owner bool        // field belongs to the spec's own type (else: sub-object field guarded by the spec's lock)
}

func (c *VCtx) fieldProtection(heap string) *protection {
	// heap = "F:pkg.Type.field"
	if !strings.HasPrefix(heap, "F:") {
		return nil
	}
	rest := heap[2:]
	i := strings.LastIndex(rest, ".")
	tkey, field := rest[:i], rest[i+1:]
	j := strings.LastIndex(tkey, ".")
	if j < 0 {
		return nil
	}
	pkgShort, tname := tkey[:j], tkey[j+1:]
	ps := c.eng.Specs[ModPath+"/"+pkgShort]
	if ps == nil {
		return nil
	}
	if sp := ps.Objects[tname]; sp != nil {
		for _, g := range sp.Guarded {
			if g == field {
				return &protection{"guarded", sp, true}
			}
		}
		for _, g := range sp.Atomic {
			if g == field {
				return &protection{"atomic", sp, true}
			}
		}
		for _, g := range sp.Immut {
			if g == field {
				return &protection{"immutable", sp, true}
			}
		}
		for _, g := range sp.Published {
			if g == field {
				return &protection{"published", sp, true}
			}
		}
		for _, g := range sp.Volatile {
			if g == field {
				return &protection{"volatile", sp, true}
			}
		}
	}
	// sub-object field guarded by another type's lock
	var names []string
	for n := range ps.Objects {
		names = append(names, n)
	}
	sort.Strings(names)
	for _, n := range names {
		sp := ps.Objects[n]
		for _, g := range sp.Guarded {
			if g == tname+"."+field {
				return &protection{"guarded", sp, false}
			}
		}
		for _, g := range sp.Immut {
			if g == tname+"."+field {
				return &protection{"immutable", sp, false}
			}
		}
	}
	if ps.Objects[tname] != nil {
		return &protection{"undeclared", ps.Objects[tname], true}
	}
	return nil
}

// staticObl records an obligation decided by the engine itself (lock-set discipline).
func (c *VCtx) staticObl(kind, desc string, ok bool, why string) {
	name := shortPkg(fnPkgPath(c.top)) + "." + FuncKey(c.top) + "#" + c.oblName(kind)
	o := &Obligation{Name: name, Props: c.ownProps(), Kind: kind, Func: FuncKey(c.top), Desc: desc, Static: true}
	if ok {
		o.Result, o.Solver = "unsat", "lockset"
	} else {
		o.Result, o.Solver, o.Output = "failed", "lockset", why
	}
	c.obls = append(c.obls, o)
}

// ownProps: ownership obligations count for the function's properties and for C13.
func (c *VCtx) ownProps() []string {
	ps := append([]string{}, c.props...)
	for _, p := range ps {
		if p == "C13" {
			return ps
		}
	}
	return append(ps, "C13")
}

func isFreshRef(t *Term) bool {
	return strings.HasPrefix(t.S, "new!") || strings.HasPrefix(t.S, "(addr!") && strings.Contains(t.S, " new!")
}

func (c *VCtx) checkAccess(fr *Frame, st *State, l *Loc, write bool, pos token.Pos) {
	if fr == nil || l.Kind != "field" {
		return
	}
	p := c.fieldProtection(l.Heap)
	if p == nil {
		return
	}
	what := "read"
	if write {
		what = "write"
	}
	desc := fmt.Sprintf("%s of %s at %s is protected (%s)", what, l.Heap[2:], c.eng.pos(pos), p.kind)
	kind := "own." + l.Heap[2:]
	if write && p.kind == "guarded" && c.top != nil {
		hn := "G:writes:" + l.Heap
		h := c.heap(st, hn, ArrSort(SRef, SInt))
		c.setHeap(st, hn, Store(h, l.Base, Add(Select(h, l.Base), IntLit(1))))
	}
	if c.contract != nil && c.contract.Opts["constructor"] != "" && strings.Contains(" "+c.contract.Opts["constructor"]+" ", " "+p.spec.Type+" ") {
		// the function builds an object of this type that no other thread can see yet
		c.staticObl(kind, desc+" [constructor: object not shared yet]", true, "")
		return
	}
	switch p.kind {
	case "guarded":
		if isFreshRef(l.Base) {
			c.staticObl(kind, desc, true, "")
			return
		}
		if !p.owner && p.spec.Via != nil {
			// a record: it belongs to the monitor its link field points to
			rest := l.Heap[2:]
			tkey := rest[:strings.LastIndex(rest, ".")]
			tname := tkey[strings.LastIndex(tkey, ".")+1:]
			if link := p.spec.Via[tname]; link != "" {
				var alts []*Term
				linkHeap := c.heap(st, "F:"+tkey+"."+link, ArrSort(SRef, SRef))
				wr := true
				for _, h := range st.held {
					for _, m := range h.specs {
						if m.spec == p.spec {
							alts = append(alts, Eq(Select(linkHeap, l.Base), m.obj))
							if write && !h.write {
								wr = false
							}
						}
					}
				}
				if len(alts) == 0 || !wr {
					c.staticObl(kind, desc, false, fmt.Sprintf("record field is guarded by the %s.%s of the %s it belongs to, which is not held here (held: %s)", p.spec.Type, p.spec.Lock, p.spec.Type, heldNames(st)))
					return
				}
				c.prove(kind, desc+": the record belongs ("+link+") to a "+p.spec.Type+" whose lock is held", st.pc, Or(alts...), nil)
				c.obls[len(c.obls)-1].Props = c.ownProps()
				return
			}
		}
		for _, h := range st.held {
			for _, m := range h.specs {
				if m.spec == p.spec && (!p.owner || m.obj.S == l.Base.S) {
					if write && !h.write {
						c.staticObl(kind, desc, false, "write while holding only the read lock")
						return
					}
					c.staticObl(kind, desc, true, "")
					return
				}
			}
		}
		if p.owner {
			// not syntactically the object whose lock is held: it must provably be one of them
			var alts []*Term
			wr := true
			for _, h := range st.held {
				for _, m := range h.specs {
					if m.spec == p.spec {
						alts = append(alts, Eq(l.Base, m.obj))
						if write && !h.write {
							wr = false
						}
					}
				}
			}
			if len(alts) > 0 && wr {
				c.prove(kind, desc+": the object accessed is one whose lock is held", st.pc, Or(alts...), nil)
				c.obls[len(c.obls)-1].Props = c.ownProps()
				return
			}
		}
		c.staticObl(kind, desc, false, fmt.Sprintf("field is guarded by %s.%s but that lock is not held here (held: %s; object accessed: %s)", p.spec.Type, p.spec.Lock, heldNames(st), trimS(l.Base.S)))
	case "immutable":
		if !write || isFreshRef(l.Base) {
			c.staticObl(kind, desc, true, "")
			return
		}
		c.staticObl(kind, desc, false, "write to a field declared immutable after construction")
	case "volatile":
		c.staticObl(kind, desc, true, "")
	case "published":
		if isFreshRef(l.Base) && !c.isPublished(l.Base) {
			c.staticObl(kind, desc, true, "")
			return
		}
		// the object must be typed to find its channel field
		stT := p.spec
		tp := c.eng.TPkgs[stT.Pkg].Types.Scope().Lookup(stT.Type)
		if tp == nil {
			c.staticObl(kind, desc, false, "cannot resolve type for published field")
			return
		}
		obj := TG(SRef, types.NewPointer(tp.Type()), l.Base.S)
		sc := &Scope{c: c, vars: map[string]Val{"this": obj}, st: st, old: st, pkg: stT.Pkg}
		if c.me != nil {
			sc.vars["me"] = c.me
		}
		chE, _ := ParseExpr("this." + stT.PubChan)
		ch := c.asTerm(c.translate(sc, chE))
		if write {
			tokE, _ := ParseExpr(stT.PubToken + "(this) == me")
			c.prove(kind, desc+": write only by the invocation that holds the publication token, before the channel is closed", st.pc,
				And(c.translateBool(sc, tokE), Not(c.isClosed(st, ch))), nil)
		} else {
			c.prove(kind, desc+": read only after the publishing channel is known to be closed", st.pc, c.isClosed(st, ch), nil)
		}
		c.obls[len(c.obls)-1].Props = c.ownProps()
	case "undeclared":
		c.staticObl(kind, desc, false, "field of a concurrency-safe type without a declared protection")
	}
}

func heldNames(st *State) string {
	var xs []string
	for k := range st.held {
		xs = append(xs, k)
	}
	sort.Strings(xs)
	if len(xs) == 0 {
		return "none"
	}
	return strings.Join(xs, ", ")
}

// checkMapAccess: the contents of a map stored in a guarded field are protected like the field.
func (c *VCtx) checkMapAccess(fr *Frame, st *State, m *Term, mv ssa.Value, write bool, pos token.Pos) {
	if fr == nil {
		return
	}
	// find the field the map value was loaded from
	u, ok := mv.(*ssa.UnOp)
	if !ok {
		return
	}
	fa, ok := u.X.(*ssa.FieldAddr)
	if !ok {
		return
	}
	stT := deref(fa.X.Type())
	f := stT.Underlying().(*types.Struct).Field(fa.Field)
	base, ok := fr.env[fa.X].(*Term)
	if !ok {
		return
	}
	l := &Loc{Kind: "field", Heap: fieldHeapName(stT, f.Name()), Base: base}
	p := c.fieldProtection(l.Heap)
	if p == nil || p.kind != "guarded" {
		return
	}
	// contents access counts as access of the field itself (write if the map is mutated)
	c.checkAccess(fr, st, l, write, pos)
}

// ---------- acquire / release ----------

type lockOwner struct {
	obj  *Term
	typ  types.Type
	path string
}

// lockOwners lists the objects whose declared lock is the mutex at address t.
func (c *VCtx) lockOwners(t *Term) []lockOwner {
	var out []lockOwner
	info := c.embedded[t.S]
	if info == nil {
		return nil
	}
	for i := range info.chain {
		lk := info.chain[i]
		path := strings.Join(info.path[i:], ".")
		if sp := c.objectSpec(lk.typ); sp != nil && sp.Lock == path {
			out = append(out, lockOwner{lk.term, lk.typ, path})
		}
	}
	return out
}

func (c *VCtx) guardedHeaps(sp *ObjectSpec, objT types.Type) (own []string, whole []string) {
	pkgPath := sp.Pkg
	tp := c.eng.TPkgs[pkgPath]
	add := func(structT types.Type, field string, isOwn bool) {
		stt, ok := structT.Underlying().(*types.Struct)
		if !ok {
			return
		}
		for i := 0; i < stt.NumFields(); i++ {
			f := stt.Field(i)
			if f.Name() != field {
				continue
			}
			hn := fieldHeapName(structT, field)
			c.heapSorts[hn] = ArrSort(SRef, sortOf(f.Type()))
			if isOwn {
				own = append(own, hn)
			} else {
				whole = append(whole, hn)
			}
			// contents reachable through the field
			switch ft := f.Type().Underlying().(type) {
			case *types.Map:
				d, v, cd := mapHeapNames(ft)
				ks, vs := sortOf(ft.Key()), sortOf(ft.Elem())
				c.heapSorts[d] = ArrSort(SRef, ArrSort(ks, SBool))
				c.heapSorts[v] = ArrSort(SRef, ArrSort(ks, vs))
				c.heapSorts[cd] = ArrSort(SRef, SInt)
				whole = append(whole, d, v, cd)
				if sl, ok := ft.Elem().Underlying().(*types.Slice); ok {
					es := sortOf(sl.Elem())
					c.heapSorts[elemHeapName(es)] = ArrSort(SRef, ArrSort(SInt, es))
					whole = append(whole, elemHeapName(es))
				}
			case *types.Slice:
				es := sortOf(ft.Elem())
				c.heapSorts[elemHeapName(es)] = ArrSort(SRef, ArrSort(SInt, es))
				whole = append(whole, elemHeapName(es))
			}
		}
	}
	for _, g := range sp.Guarded {
		if tn, fld, ok := strings.Cut(g, "."); ok {
			if obj := tp.Types.Scope().Lookup(tn); obj != nil {
				add(obj.Type(), fld, false)
			}
		} else {
			add(objT, g, true)
		}
	}
	for _, gf := range sp.Ghost {
		name, sort := c.ghostFieldHeapFor(sp, gf)
		c.heapSorts[name] = sort
		own = append(own, name)
	}
	return
}

func (c *VCtx) acquire(fr *Frame, st *State, lock *Term, write bool, pos token.Pos) {
	owners := c.lockOwners(lock)
	if _, already := st.held[lock.S]; already {
		c.staticObl("lock.reentry", "lock is not acquired while already held at "+c.eng.pos(pos), false, "the same mutex is locked twice on one path (deadlock)")
	}
	c.observe(st)
	h := &heldLock{obj: lock, write: write}
	for _, o := range owners {
		sp := c.objectSpec(o.typ)
		own, whole := c.guardedHeaps(sp, o.typ)
		if isFreshRef(o.obj) && !c.isPublished(o.obj) {
			// an object allocated by this call and not yet published: nobody else can have touched it, and its
			// invariants need not hold yet (they are checked when the lock is released)
			h.specs = append(h.specs, &monitorRef{spec: sp, obj: o.obj, objT: o.typ, owned: true})
			continue
		}
		if c.ownedByHeld(st, o.obj) {
			// the object is reachable only through a monitor whose lock this thread already holds: no interference
			own, whole = nil, nil
			h.specs = append(h.specs, &monitorRef{spec: sp, obj: o.obj, objT: o.typ, owned: true})
			continue
		}
		if sp.Mode == "sequential" {
			own, whole = nil, nil
			c.eng.assume("objects in sequential mode (" + sp.Type + "): calls do not overlap in time (property over call histories)")
		}
		for _, hn := range own {
			hs := c.heapSorts[hn]
			cur := c.heap(st, hn, hs)
			_, vs := arrParts(hs)
			nv := c.fresh("hv", vs)
			c.wfValue(st, nv)
			st.heaps[hn] = Store(cur, o.obj, nv)
			st.heaps[hn] = c.name("h", st.heaps[hn])
		}
		seen := map[string]bool{}
		for _, hn := range whole {
			if !seen[hn] {
				seen[hn] = true
				c.havocHeap(st, hn)
			}
		}
		h.specs = append(h.specs, &monitorRef{spec: sp, obj: o.obj, objT: o.typ})
	}
	st.held[lock.S] = h
	c.lmAcquire(st, lock)
	// objects owned by the monitors just entered: other holders of this lock may have changed them
	for _, m := range h.specs {
		if m.owned {
			continue
		}
		for _, f := range m.spec.Owns {
			c.havocOwned(st, m, f)
		}
	}
	// assume the invariants
	for _, m := range h.specs {
		if m.owned {
			continue
		}
		sc := c.objScope(m, st, st)
		for _, inv := range m.spec.Invs {
			c.factG(st.pc, c.translateBool(sc, inv.E))
		}
	}
	for _, m := range h.specs {
		for _, f := range m.spec.Bounded {
			hn := fieldHeapName(m.objT, f)
			hv := Select(c.heap(st, hn, ArrSort(SRef, SInt)), m.obj)
			c.fact(Implies(st.pc, And(Lt(hv, IntLitS(pow2str(62))), Gt(hv, IntLitS("-"+pow2str(62))))))
			c.eng.assume("counter " + m.spec.Type + "." + f + " does not overflow (|value| < 2^62)")
		}
	}
	// the global invariants hold for the state just observed (they talk about the guarded fields havocked above)
	for _, g := range c.globalClauses() {
		if !g.trans {
			c.factG(st.pc, c.translateBool(c.globalScope(g.pkg, st, nil), g.cl.E))
		}
	}
	for _, m := range h.specs {
		m.entry = st.clone()
	}
	if len(h.specs) > 0 && !(h.specs[0].owned && len(st.held) > 1) {
		c.lastCSEntry = h.specs[0].entry
	}
	if fr != nil && len(h.specs) > 0 {
		fr.csEntry = h.specs[0].entry
	}
}

func (c *VCtx) objScope(m *monitorRef, st, old *State) *Scope {
	sc := &Scope{c: c, vars: map[string]Val{}, st: st, old: old, pkg: m.spec.Pkg}
	sc.vars["this"] = TG(SRef, types.NewPointer(m.objT), m.obj.S)
	if c.me != nil {
		sc.vars["me"] = c.me
	}
	return sc
}

func (c *VCtx) release(fr *Frame, st *State, lock *Term, pos token.Pos) {
	h, ok := st.held[lock.S]
	if !ok {
		if len(c.lockOwners(lock)) > 0 {
			c.staticObl("lock.unheld", "unlock of a lock that is held at "+c.eng.pos(pos), false, "Unlock on a path where the lock is not (provably) held")
		}
		return
	}
	c.csCount++
	if fr != nil && fr.contract != nil {
		// "unlock N": the N-th unlock call of the source in order of first execution; a deferred unlock that
		// runs at several returns is one point, asserted at each of them
		if fr.unlockSites == nil {
			fr.unlockSites = map[token.Pos]int{}
		}
		ord, seen := fr.unlockSites[pos]
		if !seen || !pos.IsValid() {
			fr.unlocks++
			ord = fr.unlocks
			fr.unlockSites[pos] = ord
		}
		c.runGhost(fr, st, fr.contract, fmt.Sprintf("unlock %d", ord), nil)
		if fr.contract.Asserts != nil {
			// assertions at "unlock N": the state in which the critical section ends (csold() = where it began)
			c.pointAsserts(fr, st, fmt.Sprintf("unlock %d", ord), pos)
		}
	}
	if len(h.specs) > 0 && h.specs[0].entry != nil && !(h.specs[0].owned && len(st.held) > 1) {
		c.lastCSEntry = h.specs[0].entry
	}
	c.lmRelease(st, lock, pos)
	for _, m := range h.specs {
		sc := c.objScope(m, st, m.entry)
		for i, inv := range m.spec.Invs {
			if c.heldAtEntry != nil && lock.S == c.heldAtEntry.S && c.contract != nil && strings.Contains(" "+c.contract.Opts["leaves"]+" ", " "+inv.Label+" ") {
				continue // an intermediate helper: its callers re-establish this invariant (opt leaves)
			}
			g := c.translateBool(sc, inv.E)
			c.proveOnly(inv.Props, clauseProps(inv, m.spec.Props), fmt.Sprintf("cs%d.inv.%s.%s", c.csCount, m.spec.Type, clauseLabel(inv, i)),
				fmt.Sprintf("object invariant of %s restored at unlock (%s): %s", m.spec.Type, c.eng.pos(pos), inv.Src), st.pc, g)
		}
		for i, tr := range m.spec.Trans {
			g := c.translateBool(sc, tr.E)
			c.proveP(m.spec.Props, fmt.Sprintf("cs%d.trans.%s.%s", c.csCount, m.spec.Type, clauseLabel(tr, i)),
				fmt.Sprintf("two-state guarantee of %s over the critical section (%s): %s", m.spec.Type, c.eng.pos(pos), tr.Src), st.pc, g)
		}
	}
	if len(h.specs) > 0 && len(c.globalClauses()) > 0 {
		c.assertGlobal(st, h.specs[0].entry, fmt.Sprintf("cs%d", c.csCount))
	}
	delete(st.held, lock.S)
	c.heapSorts["G:lastcs"] = SInt
	st.heaps["G:lastcs"] = c.now(st)
}

// proveP is prove with extra property tags (the object's properties).
// proveOnly: like proveP, but a clause tagged with its own properties counts for exactly those.
func (c *VCtx) proveOnly(only, extra []string, kind, desc string, guard, goal *Term) {
	c.proveP(extra, kind, desc, guard, goal)
	if len(only) > 0 {
		c.obls[len(c.obls)-1].Props = append([]string{}, only...)
	}
}

func (c *VCtx) proveP(extra []string, kind, desc string, guard, goal *Term) {
	c.prove(kind, desc, guard, goal, nil)
	o := c.obls[len(c.obls)-1]
	ps := append([]string{}, o.Props...)
	for _, p := range extra {
		found := false
		for _, q := range ps {
			if q == p {
				found = true
			}
		}
		if !found {
			ps = append(ps, p)
		}
	}
	o.Props = ps
}

// ---------- ghost fields ----------

func (c *VCtx) ghostFieldHeapFor(sp *ObjectSpec, gf SpecParam) (string, Sort) {
	sc := &Scope{c: c, pkg: sp.Pkg}
	s, _ := c.specSort(sc, gf.Type)
	return "G:" + shortPkg(sp.Pkg) + "." + sp.Type + "." + gf.Name, ArrSort(SRef, s)
}

func (c *VCtx) ghostFieldHeap(stT types.Type, field string) (string, Sort) {
	sp := c.objectSpec(stT)
	if sp == nil {
		return "", ""
	}
	for _, gf := range sp.Ghost {
		if gf.Name == field {
			return c.ghostFieldHeapFor(sp, gf)
		}
	}
	return "", ""
}

// ghostHeap resolves a package-level ghost map by name (maps of imported packages are visible too).
func (c *VCtx) ghostHeap(pkg, name string) (string, Sort) {
	if gi := c.ghostMapByName(name); gi != nil {
		return gi.heap, gi.sort
	}
	unsup("unknown ghost map %s", name)
	return "", ""
}

func (c *VCtx) ghostCall(sc *Scope, x *ECall) (Val, bool) {
	if gi := c.ghostMapByName(x.Fn); gi != nil && len(x.Args) == 1 {
		h := c.heap(sc.state(), gi.heap, gi.sort)
		return Select(h, c.asTerm(c.translate(sc, x.Args[0]))), true
	}
	return nil, false
}

// ---------- hooks used by the executor ----------

func (c *VCtx) noteClose(fr *Frame, st *State, ch *Term)                {}
func (c *VCtx) noteCallback(fr *Frame, st *State, f *Term, args []Val) {}

// monitorEntry / monitorExit: ghost statements at function entry and exit.
func (c *VCtx) monitorEntry(fr *Frame, st *State, ct *FuncContract) {
	// "opt holds = <lockfield>": the function is a ...Locked helper that runs inside a critical section of
	// its receiver: the lock is held and the object invariant holds on entry, and must hold again on exit.
	if lf := ct.Opts["holds"]; lf != "" && fr.fn.Signature.Recv() == nil {
		// a callback that the library invokes inside a critical section: "opt holds = r.mtx" with r a captured variable
		first, rest, _ := strings.Cut(lf, ".")
		for _, f := range fr.fn.FreeVars {
			if f.Name() != first {
				continue
			}
			v := fr.env[f]
			if l, ok := v.(*Loc); ok {
				v = c.load(nil, st, l, 0)
			}
			if t, ok := v.(*Term); ok && t.Sort == SRef {
				pt, isPtr := deref(f.Type()).Underlying().(*types.Pointer)
				if !isPtr {
					unsup("opt holds: captured variable %s is not a pointer", first)
				}
				cur := c.lockByPath(st, t, pt.Elem(), rest)
				c.acquireNoHavoc(fr, st, cur)
				c.heldAtEntry = cur
				fr.csEntry = st.clone()
				c.lastCSEntry = fr.csEntry
			}
		}
	}
	if lf := ct.Opts["holds"]; lf != "" && fr.fn.Signature.Recv() != nil {
		recv := c.asTerm(fr.env[fr.fn.Params[0]])
		cur := c.lockByPath(st, recv, deref(fr.fn.Params[0].Type()), lf)
		c.acquireNoHavoc(fr, st, cur)
		c.heldAtEntry = cur
		// csold() in such a helper: the state at its entry (the enclosing critical section is the caller's)
		fr.csEntry = st.clone()
		c.lastCSEntry = fr.csEntry
	}
}

// lockByPath resolves "f.g.h" starting at object recv of struct type stT: embedded structs by address,
// pointer fields by their (immutable) value.
func (c *VCtx) lockByPath(st *State, recv *Term, stT types.Type, path string) *Term {
	cur, curT := recv, stT
	for _, part := range strings.Split(path, ".") {
		stt, ok := curT.Underlying().(*types.Struct)
		if !ok {
			unsup("opt holds: %s is not a struct", curT)
		}
		found := false
		for i := 0; i < stt.NumFields(); i++ {
			if stt.Field(i).Name() != part {
				continue
			}
			found = true
			ft := stt.Field(i).Type()
			if pt, isPtr := ft.Underlying().(*types.Pointer); isPtr {
				h := c.heap(st, fieldHeapName(curT, part), ArrSort(SRef, SRef))
				cur = TG(SRef, ft, Select(h, cur).S)
				curT = pt.Elem()
			} else {
				cur = c.embedAddr(cur, curT, part, ft)
				curT = ft
			}
		}
		if !found {
			unsup("opt holds: no field %s", part)
		}
	}
	return cur
}

func (c *VCtx) monitorExit(fr *Frame, st *State, ct *FuncContract) {
	if c.heldAtEntry != nil {
		c.release(fr, st, c.heldAtEntry, fr.fn.Pos())
	}
	if len(st.held) > 0 {
		c.staticObl("lock.leak", "no lock is still held when the function returns", false, "returns while holding "+heldNames(st))
	}
}

// acquireNoHavoc marks the lock held and assumes the invariants (used for functions that start inside a critical section).
func (c *VCtx) acquireNoHavoc(fr *Frame, st *State, lock *Term) {
	h := &heldLock{obj: lock, write: true}
	for _, o := range c.lockOwners(lock) {
		sp := c.objectSpec(o.typ)
		c.guardedHeaps(sp, o.typ)
		h.specs = append(h.specs, &monitorRef{spec: sp, obj: o.obj, objT: o.typ})
	}
	st.held[lock.S] = h
	breaks := ""
	if fr != nil && fr.contract != nil {
		breaks = " " + fr.contract.Opts["breaks"] + " " + fr.contract.Opts["leaves"] + " "
	}
	for _, m := range h.specs {
		sc := c.objScope(m, st, st)
		for _, inv := range m.spec.Invs {
			if strings.Contains(breaks, " "+inv.Label+" ") {
				continue // the helper may be called while this invariant is broken; it restores it
			}
			c.fact(Implies(st.pc, c.translateBool(sc, inv.E)))
		}
		m.entry = st.clone()
	}
}

// runGhost executes the ghost assignments attached to a program point: "g[k] := e" or "x.g := e".
func (c *VCtx) runGhost(fr *Frame, st *State, ct *FuncContract, at string, extra map[string]Val) {
	if ct == nil {
		return
	}
	for _, g := range ct.Ghost {
		if g.At != at {
			continue
		}
		c.ghostAssign(fr, st, ct, g, extra)
	}
}

func (c *VCtx) ghostAssign(fr *Frame, st *State, ct *FuncContract, g *GhostStmt, extra map[string]Val) {
	if os.Getenv("GOVC_DEBUG") != "" {
		fmt.Fprintf(os.Stderr, "ghost %s @%s in %s (top %s): %s\n", ct.Name, g.At, FuncKey(fr.fn), FuncKey(c.top), g.Src)
	}
	lhsSrc, rhsSrc, ok := strings.Cut(g.Src, ":=")
	if !ok {
		unsup("ghost statement needs ':=' (%s)", g.Src)
	}
	lhs, err := ParseExpr(strings.TrimSpace(lhsSrc))
	if err != nil {
		unsup("ghost lhs: %v", err)
	}
	rhs, err := ParseExpr(strings.TrimSpace(rhsSrc))
	if err != nil {
		unsup("ghost rhs: %v", err)
	}
	sc := &Scope{c: c, vars: c.baseVars(fr), st: st, old: fr.entry, fr: fr, pkg: fnPkgPath(fr.fn), exitOf: fr.curBlock}
	for k, v := range extra {
		sc.vars[k] = v
	}
	for i, p := range fr.fn.Params {
		sc.vars[p.Name()] = fr.env[p]
		if i == 0 && fr.fn.Signature.Recv() != nil {
			sc.vars["this"] = fr.env[p]
		}
	}
	v := c.asTerm(c.translate(sc, rhs))
	if st.pc.S != "true" {
		// the assignment happens only on the current path
		defer func(saved *State) {}(nil)
	}
	switch l := lhs.(type) {
	case *EField:
		base := c.asTerm(c.translate(sc, l.X))
		stT := base.GT
		if stT == nil {
			unsup("ghost field of untyped value")
		}
		name, sort := c.ghostFieldHeap(stT, l.F)
		if name == "" {
			unsup("no ghost field %s", l.F)
		}
		h := c.heap(st, name, sort)
		c.setHeap(st, name, Store(h, base, v))
	case *ECall:
		gi := c.ghostMapByName(l.Fn)
		if gi == nil {
			unsup("unknown ghost map %s", l.Fn)
		}
		name, sort := gi.heap, gi.sort
		h := c.heap(st, name, sort)
		k := c.asTerm(c.translate(sc, l.Args[0]))
		switch gi.kind {
		case "owned":
			// an entry may only be claimed when free or changed by its holder, and only to me / zero
			old := Select(h, k)
			newOK := []*Term{Eq(v, c.me), Eq(v, T(old.Sort, gi.zero)), Eq(v, old)}
			if ch, ok := extra["child"].(*Term); ok {
				// at a go statement the entry may be handed to the goroutine being started
				newOK = append(newOK, Eq(v, ch))
			}
			c.prove("ghost.owned."+gi.name, fmt.Sprintf("owned ghost map %s: the entry written is free or mine, and becomes mine or free (%s)", gi.name, g.Src), st.pc,
				And(Or(Eq(old, T(old.Sort, gi.zero)), Eq(old, c.me), Eq(v, old)), Or(newOK...)), nil)
		case "by":
			tk := c.ghostMapByName(gi.token)
			if tk == nil {
				unsup("ghost map %s: unknown token map %s", gi.name, gi.token)
			}
			th := c.heap(st, tk.heap, tk.sort)
			c.prove("ghost.by."+gi.name, fmt.Sprintf("ghost map %s: the entry is written by the holder of %s for the same key (%s)", gi.name, gi.token, g.Src), st.pc,
				Or(Eq(Select(th, k), c.me), Eq(v, Select(h, k))), nil)
		case "once":
			old := Select(h, k)
			c.prove("ghost.once."+gi.name, fmt.Sprintf("set-once ghost map %s: the entry written was unset or keeps its value (%s)", gi.name, g.Src), st.pc,
				Or(Eq(old, T(old.Sort, gi.zero)), Eq(v, old)), nil)
		}
		c.setHeap(st, name, Store(h, k, v))
	case *EIdent:
		lm := c.localMon
		if lm == nil || lm.lockRef == nil {
			unsup("ghost assignment to %s: no local monitor", l.Name)
		}
		hn, hs, ok := c.lmGhostHeap(lm, l.Name)
		if !ok {
			unsup("ghost assignment to unknown local ghost %s", l.Name)
		}
		h := c.heap(st, hn, hs)
		c.setHeap(st, hn, Store(h, lm.lockRef, v))
	default:
		unsup("ghost assignment target %T", lhs)
	}
}

// ---------- channels ----------

func (c *VCtx) recv(fr *Frame, st *State, x *ssa.UnOp) Val {
	ch := fr.term(x.X)
	c.blockingPoint(fr, st, x.Pos())
	c.observe(st)
	// a receive on a close-only channel returns only when it is closed (or blocks forever on nil)
	et := x.X.Type().Underlying().(*types.Chan).Elem()
	if isEmptyStruct(et) {
		c.fact(Implies(st.pc, And(Not(Eq(ch, Null)), c.isClosed(st, ch))))
		c.eng.assume("channels of element type struct{} are never sent on (close-only); a receive returns only after close")
	}
	if fr.contract != nil {
		fr.recvs++
		pt := fmt.Sprintf("recv %d", fr.recvs)
		for _, a := range fr.contract.AssumesAt[pt] {
			sc := &Scope{c: c, vars: c.baseVars(fr), st: st, old: fr.entry, fr: fr, pkg: fnPkgPath(fr.fn), exitOf: fr.curBlock}
			c.fact(Implies(st.pc, c.translateBool(sc, a.E)))
			c.eng.assume("assumed at " + pt + " in " + FuncKey(fr.fn) + ": " + a.Src)
		}
	}
	v := c.freshVal("rcv", et)
	if x.CommaOk {
		ok := c.fresh("rcvok", SBool)
		return Tuple{v, ok}
	}
	return v
}

func isEmptyStruct(t types.Type) bool {
	s, ok := t.Underlying().(*types.Struct)
	return ok && s.NumFields() == 0
}

func (c *VCtx) blockingPoint(fr *Frame, st *State, pos token.Pos) {
	if len(st.held) > 0 {
		c.staticObl("block.locked", "no blocking operation while a monitor lock is held at "+c.eng.pos(pos), false, "blocking channel operation while holding "+heldNames(st))
	}
}

func (c *VCtx) selectInstr(fr *Frame, st *State, x *ssa.Select) Val {
	if x.Blocking {
		c.blockingPoint(fr, st, x.Pos())
	}
	c.curSelectChans = nil
	for _, s := range x.States {
		c.curSelectChans = append(c.curSelectChans, fr.term(s.Chan))
	}
	c.curSelectBlocking = x.Blocking
	c.pointAsserts(fr, st, fmt.Sprintf("select %d", selectOrdinal(fr.fn, x)), x.Pos())
	if x.Blocking {
		// "select *": what must hold at every blocking select of the function, including ones added later
		c.pointAsserts(fr, st, "select *", x.Pos())
	}
	c.observe(st)
	idx := c.fresh("sel", SInt)
	lo := int64(0)
	if !x.Blocking {
		lo = -1
	}
	c.fact(And(Ge(idx, IntLit(lo)), Lt(idx, IntLit(int64(len(x.States))))))
	out := Tuple{idx, c.fresh("selok", SBool)}
	for i, s := range x.States {
		if s.Dir != types.RecvOnly {
			unsup("select with send case")
		}
		ch := fr.term(s.Chan)
		et := s.Chan.Type().Underlying().(*types.Chan).Elem()
		chosen := Eq(idx, IntLit(int64(i)))
		if isEmptyStruct(et) {
			c.fact(Implies(And(st.pc, chosen), And(Not(Eq(ch, Null)), c.isClosed(st, ch))))
			c.eng.assume("channels of element type struct{} are never sent on (close-only); a receive returns only after close")
		} else {
			c.fact(Implies(And(st.pc, chosen), Not(Eq(ch, Null))))
		}
		out = append(out, c.freshVal("selv", et))
		// ghost: count the receive on the chosen channel
		rh := c.heap(st, "G:recvs", ArrSort(SRef, SInt))
		c.setHeap(st, "G:recvs", Ite(chosen, Store(rh, ch, Add(Select(rh, ch), IntLit(1))), rh))
	}
	if !x.Blocking {
		// default taken only if no close-only channel is ready
		for _, s := range x.States {
			ch := fr.term(s.Chan)
			if isEmptyStruct(s.Chan.Type().Underlying().(*types.Chan).Elem()) {
				c.fact(Implies(And(st.pc, Eq(idx, IntLit(-1))), Or(Eq(ch, Null), Not(c.isClosed(st, ch)))))
			}
		}
	}
	c.lastSelect = &selectInfo{instr: x, idx: idx}
	return out
}

type selectInfo struct {
	instr *ssa.Select
	idx   *Term
}

func selectOrdinal(fn *ssa.Function, x *ssa.Select) int {
	n := 1
	for _, b := range fn.Blocks {
		for _, in := range b.Instrs {
			if s, ok := in.(*ssa.Select); ok && s != x && s.Pos() < x.Pos() {
				n++
			}
		}
	}
	return n
}

// pointAsserts proves the contract's assertions attached to a program point of the current frame's function.
func (c *VCtx) pointAsserts(fr *Frame, st *State, point string, pos token.Pos) {
	if fr.contract == nil || fr.contract.Asserts == nil {
		return
	}
	if c.pointsHit == nil {
		c.pointsHit = map[string]bool{}
	}
	c.pointsHit[FuncKey(fr.fn)+"|"+point] = true
	for i, a := range fr.contract.Asserts[point] {
		sc := &Scope{c: c, vars: c.baseVars(fr), st: st, old: fr.entry, fr: fr, pkg: fnPkgPath(fr.fn), exitOf: fr.curBlock}
		if c.assertOld != nil {
			// assertions at an atomic operation are two-state: old() is the state just before the operation
			sc.old = c.assertOld
		}
		for k, v := range c.assertExtra {
			sc.vars[k] = v
		}
		if fr.curBlock != nil && len(fr.curBlock.Instrs) > 0 {
			// at a point inside the deferred calls of a returning block: the values about to be returned
			// (only those already computed; named results are read after the deferred calls and are not bound)
			if ret, ok := fr.curBlock.Instrs[len(fr.curBlock.Instrs)-1].(*ssa.Return); ok {
				for j, r := range ret.Results {
					_, isC := r.(*ssa.Const)
					var rv Val
					if _, ok := fr.env[r]; ok || isC {
						rv = fr.eval(r)
					} else if u, ok := r.(*ssa.UnOp); ok && u.Op == token.MUL {
						// the result slot of a function with deferred calls: written before they run
						if a, ok := u.X.(*ssa.Alloc); ok && fr.env[a] != nil {
							rv = c.unop(fr, st, u)
						}
					}
					if rv != nil {
						sc.vars[fmt.Sprintf("result%d", j)] = rv
						if len(ret.Results) == 1 {
							sc.vars["result"] = rv
						}
					}
				}
			}
		}
		for j, p := range fr.fn.Params {
			sc.vars[p.Name()] = fr.env[p]
			if j == 0 && fr.fn.Signature.Recv() != nil {
				sc.vars["this"] = fr.env[p]
			}
		}
		g := c.translateBool(sc, a.E)
		c.prove(fmt.Sprintf("assert.%s.%s", strings.ReplaceAll(point, " ", ""), clauseLabel(a, i)), fmt.Sprintf("assertion at %s (%s): %s", point, c.eng.pos(pos), a.Src), st.pc, g, nil)
		c.fact(Implies(st.pc, g))
	}
}

// wfValue: a value found in the (havocked) heap denotes objects that exist at this moment.
func (c *VCtx) wfValue(st *State, v *Term) {
	switch v.Sort {
	case SRef:
		c.fact(Or(Eq(v, Null), Select(c.allocHeap(st), v)))
	case SSlice:
		c.fact(Or(Eq(SlArr(v), Null), Select(c.allocHeap(st), SlArr(v))))
		c.fact(c.sliceShape(v))
	}
}

func trimS(s string) string {
	if len(s) > 160 {
		return s[:160] + "..."
	}
	return s
}

// publish: the value may now be reachable by other threads (or by code this call does not control).
func (c *VCtx) publish(v Val) {
	if c.published == nil {
		c.published = map[string]bool{}
	}
	switch x := v.(type) {
	case *Term:
		if x.Sort == SRef && !c.published[x.S] {
			c.published[x.S] = true
			c.publishContents(x.S)
		}
	case *FnVal:
		for _, b := range x.Binds {
			c.publish(b)
		}
	case *Loc:
		if x.Base != nil && !c.published[x.Base.S] {
			c.published[x.Base.S] = true
			c.publishContents(x.Base.S)
		}
	case Tuple:
		for _, e := range x {
			c.publish(e)
		}
	}
}

// publishContents: what was stored into an object while it was private becomes reachable with it.
func (c *VCtx) publishContents(key string) {
	vals := c.storedIn[key]
	delete(c.storedIn, key)
	for _, v := range vals {
		c.publish(v)
	}
}

func (c *VCtx) isPublished(t *Term) bool {
	if c.published[t.S] {
		return true
	}
	// an embedded sub-object is published with its container
	if info := c.embedded[t.S]; info != nil {
		for _, lk := range info.chain {
			if c.published[lk.term.S] {
				return true
			}
		}
	}
	return false
}
