package vc

import (
	"go/token"
	"go/types"

	"golang.org/x/tools/go/ssa"
)

// monitorRef links a held lock to the object spec it protects.
type monitorRef struct {
	spec *ObjectSpec
	obj  *Term
}

func (c *VCtx) checkAccess(fr *Frame, st *State, l *Loc, write bool, pos token.Pos) {}

func (c *VCtx) checkMapAccess(fr *Frame, st *State, m *Term, mv ssa.Value, write bool, pos token.Pos) {
}

func (c *VCtx) noteClose(fr *Frame, st *State, ch *Term)                 {}
func (c *VCtx) noteCallback(fr *Frame, st *State, f *Term, args []Val)  {}
func (c *VCtx) monitorEntry(fr *Frame, st *State, ct *FuncContract)     {}
func (c *VCtx) monitorExit(fr *Frame, st *State, ct *FuncContract)      {}

func (c *VCtx) ghostHeap(pkg, name string) (string, Sort) {
	unsup("unknown ghost heap %s", name)
	return "", ""
}

func (c *VCtx) ghostFieldHeap(stT types.Type, field string) (string, Sort) {
	return "", ""
}

func (c *VCtx) ghostCall(sc *Scope, x *ECall) (Val, bool) { return nil, false }

func (c *VCtx) recv(fr *Frame, st *State, x *ssa.UnOp) Val {
	unsup("channel receive")
	return nil
}

func (c *VCtx) selectInstr(fr *Frame, st *State, x *ssa.Select) Val {
	unsup("select")
	return nil
}
