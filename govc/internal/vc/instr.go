package vc

import (
	"sync"
	"hash/fnv"
	"os"
	"fmt"
	"go/token"
	"go/types"
	"strings"

	"golang.org/x/tools/go/ssa"
)

// safety emits a no-panic obligation (when the function is under a nopanic regime) and then assumes cond.
func (c *VCtx) safety(fr *Frame, st *State, kind string, cond *Term, pos token.Pos) {
	if cond.S == "true" {
		return
	}
	if c.contract != nil && !c.contract.MayPanic {
		c.prove("nopanic."+kind, fmt.Sprintf("no %s panic at %s", kind, c.eng.pos(pos)), st.pc, cond, nil)
	} else {
		c.eng.PanicAssumed++
	}
	c.fact(Implies(st.pc, cond))
}

func deref(t types.Type) types.Type {
	if p, ok := t.Underlying().(*types.Pointer); ok {
		return p.Elem()
	}
	unsup("not a pointer type: %s", t)
	return nil
}

func isStruct(t types.Type) bool {
	_, ok := t.Underlying().(*types.Struct)
	return ok
}

// ptrVal turns a Ref term of pointer type into the canonical pointer value.
func (c *VCtx) ptrVal(t *Term, ptrType types.Type) Val {
	p, ok := ptrType.Underlying().(*types.Pointer)
	if !ok {
		return t
	}
	el := p.Elem()
	if isStruct(el) {
		return t
	}
	if _, ok := el.Underlying().(*types.Array); ok {
		return &Loc{Kind: "arr", Base: t, GT: el}
	}
	es := sortOf(el)
	return &Loc{Kind: "cell", Heap: cellHeapName(es), Sort: es, Base: t, GT: el}
}

// wrapTyped attaches Go type info and normalises pointer values.
func (c *VCtx) typed(v Val, t types.Type) Val {
	if t == nil {
		return v
	}
	if tm, ok := v.(*Term); ok {
		if _, isPtr := t.Underlying().(*types.Pointer); isPtr && tm.Sort == SRef {
			if _, isTP := t.(*types.TypeParam); !isTP {
				return c.ptrVal(TG(SRef, t, tm.S), t)
			}
		}
		if tm.GT == nil {
			return TG(tm.Sort, t, tm.S)
		}
	}
	return v
}

// freshVal makes an unconstrained value of Go type t (with range facts under guard g).
func (c *VCtx) freshVal(prefix string, t types.Type) Val {
	if tup, ok := t.(*types.Tuple); ok {
		out := Tuple{}
		for i := 0; i < tup.Len(); i++ {
			out = append(out, c.freshVal(prefix, tup.At(i).Type()))
		}
		return out
	}
	s := sortOf(t)
	v := c.fresh(prefix, s)
	v.GT = t
	c.typeFacts(v, t)
	return c.typed(v, t)
}

// typeFacts asserts the type invariant of a value (integer range, slice shape).
func (c *VCtx) typeFacts(v *Term, t types.Type) {
	switch v.Sort {
	case SInt:
		c.fact(rangeFact(v, t))
	case SSlice:
		c.fact(c.sliceShape(v))
	case SStr:
		c.fact(And(Ge(StrLen(v), IntLit(0)), Lt(StrLen(v), IntLitS(pow2str(48)))))
	}
}

func (c *VCtx) sliceShape(v *Term) *Term {
	return And(Ge(SlLen(v), IntLit(0)), Le(SlLen(v), SlCap(v)), Ge(SlOff(v), IntLit(0)),
		Lt(SlCap(v), IntLitS(pow2str(48))), Lt(SlOff(v), IntLitS(pow2str(48))),
		Implies(Eq(SlArr(v), Null), Eq(SlCap(v), IntLit(0))))
}

// ---------- memory ----------

func (c *VCtx) embedAddr(base *Term, structT types.Type, field string, ft types.Type) *Term {
	fn := "addr!" + typeKey(structT) + "." + field
	inv := "base!" + typeKey(structT) + "." + field
	s := c.declareFun(fn, []Sort{SRef}, SRef)
	is := c.declareFun(inv, []Sort{SRef}, SRef)
	if !strings.Contains(base.S, "q!") {
		c.fact(T(SBool, fmt.Sprintf("(and (= (%s (%s %s)) %s) (not (= (%s %s) null)))", is, s, base.S, base.S, s, base.S)))
	} else if !c.declSet["embedinj:"+fn] {
		// the address of an embedded struct of a quantified object: the general (one-directional) injectivity axiom
		c.declSet["embedinj:"+fn] = true
		c.facts0(T(SBool, fmt.Sprintf("(forall ((x Ref)) (! (and (= (%s (%s x)) x) (not (= (%s x) null))) :pattern ((%s x))))", is, s, s, s)))
	}
	t := TG(SRef, types.NewPointer(ft), fmt.Sprintf("(%s %s)", s, base.S))
	info := &embedInfo{base: base, path: []string{field}, typ: ft, chain: []embedLink{{base, structT}}}
	if up, ok := c.embedded[base.S]; ok {
		info = &embedInfo{base: up.base, path: append(append([]string{}, up.path...), field), typ: ft,
			chain: append(append([]embedLink{}, up.chain...), embedLink{base, structT})}
	}
	c.embedded[t.S] = info
	return t
}

func (c *VCtx) load(fr *Frame, st *State, p Val, pos token.Pos) Val {
	switch l := p.(type) {
	case *Loc:
		var v *Term
		switch l.Kind {
		case "field", "cell":
			c.checkAccess(fr, st, l, false, pos)
			if l.Kind == "cell" && fr != nil {
				c.pubCellCheck(fr, st, l, false, pos)
			}
			if l.Kind == "cell" && c.lmCheckCell(fr, st, l, false, pos) {
				// racy read of a shared variable: the value is whatever some other thread last wrote
				rv := c.freshVal("racy", l.GT)
				return rv
			}
			if l.Kind == "cell" && st.cells != nil {
				if known, ok := st.cells[l.Base.S]; ok {
					return known
				}
			}
			h := c.heap(st, l.Heap, ArrSort(SRef, l.Sort))
			v = Select(h, l.Base)
		case "elem":
			h := c.heap(st, l.Heap, ArrSort(SRef, ArrSort(SInt, l.Sort)))
			v = Select(Select(h, l.Base), l.Idx)
		case "arr":
			// whole-array load: the value is the (immutable) contents
			at := l.GT.Underlying().(*types.Array)
			es := sortOf(at.Elem())
			h := c.heap(st, elemHeapName(es), ArrSort(SRef, ArrSort(SInt, es)))
			return c.name("arrv", Select(h, l.Base))
		}
		v.GT = l.GT
		if l.Sort == SInt || l.Sort == SSlice || l.Sort == SStr {
			v = c.name("ld", v)
			c.typeFacts(v, l.GT)
		}
		return c.typed(v, l.GT)
	case *Term:
		// pointer to struct: load of the whole struct value -> the value is represented by its address snapshot
		unsup("load of whole struct value through %s", l.S)
	}
	unsup("load through %T", p)
	return nil
}

func (c *VCtx) store(fr *Frame, st *State, p Val, v Val, pos token.Pos) {
	switch l := p.(type) {
	case *Loc:
		tv := c.asTerm(v)
		if l.Kind != "cell" && !(l.Base != nil && isFreshRef(l.Base) && !c.isPublished(l.Base)) {
			c.publish(v)
		} else if l.Kind == "cell" && !strings.HasPrefix(l.Base.S, "cell!") {
			c.publish(v)
		} else if l.Base != nil && !c.isPublished(l.Base) {
			// stored into something only this invocation can reach: becomes reachable together with it
			if c.storedIn == nil {
				c.storedIn = map[string][]Val{}
			}
			root := l.Base
			if info := c.embedded[root.S]; info != nil && len(info.chain) > 0 {
				root = info.chain[0].term
			}
			c.storedIn[root.S] = append(c.storedIn[root.S], v)
		} else if l.Base != nil {
			c.publish(v)
		}
		switch l.Kind {
		case "field", "cell":
			c.checkAccess(fr, st, l, true, pos)
			if l.Kind == "cell" {
				c.lmCheckCell(fr, st, l, true, pos)
				if fr != nil {
					c.pubCellCheck(fr, st, l, true, pos)
				}
			}
			hs := ArrSort(SRef, l.Sort)
			h := c.heap(st, l.Heap, hs)
			c.setHeap(st, l.Heap, Store(h, l.Base, tv))
			if l.Kind == "cell" && st.cells != nil {
				if strings.HasPrefix(l.Base.S, "cell!") {
					st.cells[l.Base.S] = c.typed(v, l.GT)
				} else {
					// a store through an unknown pointer may alias any cell
					st.cells = map[string]Val{}
				}
			}
		case "elem":
			hs := ArrSort(SRef, ArrSort(SInt, l.Sort))
			h := c.heap(st, l.Heap, hs)
			for _, arr := range c.callerOwnedArrays() {
				// "caller-owned" slices are assumed unwritten by everybody else; this function must not write them either
				c.prove("own.caller-owned", "an element store does not go into a slice argument declared caller-owned", st.pc, Not(Eq(l.Base, arr)), nil)
			}
			c.setHeap(st, l.Heap, Store(h, l.Base, Store(Select(h, l.Base), l.Idx, tv)))
		default:
			unsup("store to %s location", l.Kind)
		}
		return
	}
	unsup("store through %T", p)
}

// zeroInit sets all fields of a freshly allocated struct to their zero values.
func (c *VCtx) zeroInit(st *State, r *Term, t types.Type) {
	stt, ok := t.Underlying().(*types.Struct)
	if !ok {
		return
	}
	if n, ok := t.(*types.Named); ok && n.Obj().Pkg() != nil && n.Obj().Pkg().Path() == "sync" {
		return // internals of sync primitives are not modelled
	}
	isAtomic := false
	if n, ok := t.(*types.Named); ok && n.Obj().Pkg() != nil && n.Obj().Pkg().Path() == "sync/atomic" {
		isAtomic = true
	}
	if sp := c.objectSpec(t); sp != nil {
		// ghost fields of a fresh object start at their zero value (empty set, nil, 0)
		for _, gf := range sp.Ghost {
			name, sort := c.ghostFieldHeapFor(sp, gf)
			_, vs := arrParts(sort)
			var z *Term
			switch {
			case vs == SInt:
				z = IntLit(0)
			case vs == SBool:
				z = False
			case vs == SRef:
				z = Null
			case vs == ArrSort(SRef, SBool):
				z = T(vs, "emptyset")
			default:
				continue
			}
			h := c.heap(st, name, sort)
			c.setHeap(st, name, Store(h, r, z))
		}
	}
	for i := 0; i < stt.NumFields(); i++ {
		f := stt.Field(i)
		ft := f.Type()
		if isAtomic && f.Name() != "v" {
			continue
		}
		if isStruct(ft) {
			if _, isTP := ft.(*types.TypeParam); !isTP {
				e := c.embedAddr(r, t, f.Name(), ft)
				// memory of a fresh object is fresh
				a := c.allocHeap(st)
				c.fact(Not(Select(a, e)))
				c.setHeap(st, "G:alloc", Store(a, e, True))
				c.zeroInit(st, e, ft)
				continue
			}
		}
		if at, ok := ft.Underlying().(*types.Array); ok {
			es := sortOf(at.Elem())
			arr := c.arrOf(r, t, f.Name(), ft)
			al := c.allocHeap(st)
			c.fact(And(Not(Select(al, arr)), Not(Eq(arr, Null))))
			c.setHeap(st, "G:alloc", Store(al, arr, True))
			hn := elemHeapName(es)
			h := c.heap(st, hn, ArrSort(SRef, ArrSort(SInt, es)))
			z := c.asTerm(c.zero(at.Elem()))
			c.setHeap(st, hn, Store(h, arr, c.zeroArray(es, z)))
			continue
		}
		fs := sortOf(ft)
		hn := fieldHeapName(t, f.Name())
		h := c.heap(st, hn, ArrSort(SRef, fs))
		c.setHeap(st, hn, Store(h, r, c.asTerm(c.zero(ft))))
	}
}

func (c *VCtx) arrOf(base *Term, structT types.Type, field string, ft types.Type) *Term {
	fn := c.declareFun("arrof!"+typeKey(structT)+"."+field, []Sort{SRef}, SRef)
	return TG(SRef, ft, fmt.Sprintf("(%s %s)", fn, base.S))
}

func (c *VCtx) allocHeap(st *State) *Term { return c.heap(st, "G:alloc", ArrSort(SRef, SBool)) }

func (c *VCtx) freshRef(st *State, prefix string) *Term {
	r := c.fresh(prefix, SRef)
	a := c.allocHeap(st)
	c.fact(And(Not(Eq(r, Null)), Not(Select(a, r))))
	c.setHeap(st, "G:alloc", Store(a, r, True))
	if c.top != nil {
		c.freshGhost(st, r)
	}
	if prefix == "new" {
		c.allFresh = append(c.allFresh, r)
	}
	if prefix == "new" || prefix == "chan" || prefix == "cell" {
		c.freshKeys = append(c.freshKeys, r)
	}
	return r
}

// known records that a ref value existed at this point (so later allocations differ from it).
func (c *VCtx) known(st *State, v Val) {
	if t, ok := v.(*Term); ok && t.Sort == SRef && t.S != "null" {
		c.fact(Or(Eq(t, Null), Select(c.allocHeap(st), t)))
	}
	if l, ok := v.(*Loc); ok && l.Base != nil {
		c.fact(Or(Eq(l.Base, Null), Select(c.allocHeap(st), l.Base)))
	}
	if t, ok := v.(*Term); ok && t.Sort == SSlice {
		c.fact(Or(Eq(SlArr(t), Null), Select(c.allocHeap(st), SlArr(t))))
	}
}

// ---------- instructions ----------

func (c *VCtx) execInstr(fr *Frame, st *State, in ssa.Instruction, incoming map[*ssa.BasicBlock][]inEdge) bool {
	switch x := in.(type) {
	case *ssa.DebugRef:
		return true
	case *ssa.Alloc:
		el := deref(x.Type())
		if isStruct(el) {
			r := c.freshRef(st, "new")
			r.GT = x.Type()
			c.zeroInit(st, r, el)
			c.freshObjectGhost(st, r, el)
			fr.env[x] = r
			if n, ok := el.(*types.Named); ok && n.Obj().Pkg() != nil && n.Obj().Pkg().Path() == "sync/atomic" {
				// a local variable of atomic type: private to this call until the function ends
				c.localAtomics[r.S] = true
				c.usesAtomics = true
			}
		} else if at, ok := el.Underlying().(*types.Array); ok {
			r := c.freshRef(st, "arr")
			es := sortOf(at.Elem())
			hn := elemHeapName(es)
			h := c.heap(st, hn, ArrSort(SRef, ArrSort(SInt, es)))
			z := c.asTerm(c.zero(at.Elem()))
			c.setHeap(st, hn, Store(h, r, c.zeroArray(es, z)))
			fr.env[x] = &Loc{Kind: "arr", Base: r, GT: el}
		} else {
			r := c.freshRef(st, "cell")
			es := sortOf(el)
			l := &Loc{Kind: "cell", Heap: cellHeapName(es), Sort: es, Base: r, GT: el}
			h := c.heap(st, l.Heap, ArrSort(SRef, es))
			c.setHeap(st, l.Heap, Store(h, r, c.asTerm(c.zero(el))))
			fr.env[x] = l
		}
		if fr.contract != nil && x.Comment != "" {
			c.lmNoteAlloc(fr, x.Comment, fr.env[x])
			c.runGhost(fr, st, fr.contract, "init "+x.Comment, nil)
		}
	case *ssa.BinOp:
		fr.env[x] = c.binop(fr, st, x)
	case *ssa.UnOp:
		fr.env[x] = c.unop(fr, st, x)
	case *ssa.Call:
		fr.env[x] = c.call(fr, st, &x.Call, x, "call")
	case *ssa.Go:
		c.call(fr, st, &x.Call, nil, "go")
	case *ssa.Defer:
		fr.defers = append(fr.defers, &deferred{guard: st.pc, call: &x.Call, fr: fr, block: x.Block()})
	case *ssa.RunDefers:
		for i := len(fr.defers) - 1; i >= 0; i-- {
			d := fr.defers[i]
			if d.block != nil && d.block != x.Block() && !blockReaches(d.block, x.Block()) {
				continue // registered on a path that cannot lead here: not pending at this return
			}
			if d.guard.S == st.pc.S || blockDominates(fr, d) {
				c.call(fr, st, d.call, nil, "defer")
			} else {
				// conditional defer: run under guard and merge
				saved := st.clone()
				st.pc = And(st.pc, d.guard)
				c.call(fr, st, d.call, nil, "defer")
				ran := st.clone()
				notRan := saved
				notRan.pc = And(saved.pc, Not(d.guard))
				m, _ := c.mergeStates([]*State{ran, notRan})
				*st = *m
			}
		}
	case *ssa.ChangeInterface:
		fr.env[x] = fr.eval(x.X)
	case *ssa.ChangeType:
		v := fr.eval(x.X)
		if t, ok := v.(*Term); ok {
			v = TG(t.Sort, x.Type(), t.S)
		}
		fr.env[x] = v
	case *ssa.Convert:
		fr.env[x] = c.convert(fr, st, x)
	case *ssa.MakeInterface:
		v := fr.eval(x.X)
		switch tv := v.(type) {
		case *Term:
			if tv.Sort == SRef {
				fr.env[x] = TG(SRef, x.Type(), tv.S)
			} else {
				fn := c.declareFun("box!"+string(tv.Sort), []Sort{tv.Sort}, SRef)
				ub := c.declareFun("unbox!"+string(tv.Sort), []Sort{SRef}, tv.Sort)
				// ground instance of injectivity / non-nilness (no quantified background axiom)
				c.fact(T(SBool, fmt.Sprintf("(and (= (%s (%s %s)) %s) (not (= (%s %s) null)))", ub, fn, tv.S, tv.S, fn, tv.S)))
				fr.env[x] = TG(SRef, x.Type(), fmt.Sprintf("(%s %s)", fn, tv.S))
			}
		default:
			fr.env[x] = TG(SRef, x.Type(), c.asTerm(v).S)
		}
	case *ssa.Extract:
		tup, ok := fr.eval(x.Tuple).(Tuple)
		if !ok {
			unsup("extract from non-tuple")
		}
		fr.env[x] = tup[x.Index]
	case *ssa.FieldAddr:
		base := fr.term(x.X)
		c.safety(fr, st, "nilderef", Not(Eq(base, Null)), x.Pos())
		stT := deref(x.X.Type())
		f := stT.Underlying().(*types.Struct).Field(x.Field)
		fr.env[x] = c.fieldAddr(base, stT, f)
	case *ssa.Field:
		// field of a struct value: struct values are represented by a ref to an immutable snapshot
		base := fr.term(x.X)
		stT := x.X.Type()
		f := stT.Underlying().(*types.Struct).Field(x.Field)
		fr.env[x] = c.load(fr, st, c.fieldAddr(base, stT, f), x.Pos())
	case *ssa.IndexAddr:
		fr.env[x] = c.indexAddr(fr, st, x)
	case *ssa.Index:
		unsup("Index on array value")
	case *ssa.Lookup:
		fr.env[x] = c.lookup(fr, st, x)
	case *ssa.MakeChan:
		r := c.freshRef(st, "chan")
		r.GT = x.Type()
		c.fact(Not(c.isClosed(st, r)))
		// where the channel was made never changes (madein(ch, "Func") in contracts)
		c.fact(Eq(c.chanSite(r), IntLit(siteID(FuncKey(fr.fn)))))
		if fr.contract != nil {
			// ghost statements at "makechan N": chan denotes the new channel
			fr.makechans++
			c.runGhost(fr, st, fr.contract, fmt.Sprintf("makechan %d", fr.makechans), map[string]Val{"chan": r})
		}
		fr.env[x] = r
	case *ssa.MakeClosure:
		fv := &FnVal{Fn: x.Fn.(*ssa.Function)}
		for _, b := range x.Bindings {
			fv.Binds = append(fv.Binds, fr.eval(b))
		}
		fr.env[x] = fv
		if fr.contract != nil {
			// ghost statements at "closure N" (N-th closure created by this function): closure denotes the new function value
			fr.closures++
			pt := fmt.Sprintf("closure %d", fr.closures)
			for _, g := range fr.contract.Ghost {
				if g.At == pt {
					if fv.term == nil {
						fv.term = c.freshRef(st, "fn")
						fv.term.GT = fv.Fn.Signature
						c.fnTerm(fv)
					}
					c.runGhost(fr, st, fr.contract, pt, map[string]Val{"closure": fv.term})
					break
				}
			}
		}
		if ct := c.eng.ContractOf(fv.Fn); ct != nil {
			// "bind v = G": the value captured for v is closure G created over the very same variables
			for v, key := range ct.Binds {
				okBind := false
				for j, f := range fv.Fn.FreeVars {
					if f.Name() != v || j >= len(fv.Binds) {
						continue
					}
					bv := fv.Binds[j]
					if l, isCell := bv.(*Loc); isCell && l.Kind == "cell" && l.Base != nil && st.cells != nil {
						// captured by reference: the variable must hold the closure now and never be reassigned
						if w, ok := x.Bindings[j].(*ssa.Alloc); ok && storesTo(w) == 1 {
							bv = st.cells[l.Base.S]
						}
					}
					gv, isFn := bv.(*FnVal)
					if !isFn || gv.Fn == nil || bareName(FuncKey(gv.Fn)) != bareName(key) {
						break
					}
					okBind = true
					for gi, gf := range gv.Fn.FreeVars {
						// variables both closures capture must be the very same variables
						for j2, f2 := range fv.Fn.FreeVars {
							if f2.Name() == gf.Name() && !(j2 < len(fv.Binds) && gi < len(gv.Binds) && sameVal(fv.Binds[j2], gv.Binds[gi])) {
								okBind = false
							}
						}
					}
				}
				if !okBind {
					unsup("bind %s = %s of %s cannot be established where the closure is created", v, key, FuncKey(fv.Fn))
				}
			}
		}
		if ct := c.eng.ContractOf(fv.Fn); ct != nil && len(ct.ClosureInv) > 0 {
			// facts about the captured variables that must hold whenever the closure runs: proved at creation
			sc := c.contractScope(fv.Fn, ct, fv, nil, st, st, nil)
			for i, r := range ct.ClosureInv {
				c.prove(fmt.Sprintf("closure.%s.%s", FuncKey(fv.Fn), clauseLabel(r, i)), "captured-variable invariant of "+FuncKey(fv.Fn)+" holds when the closure is created: "+r.Src, st.pc, c.translateBool(sc, r.E), nil)
			}
		}
	case *ssa.MakeMap:
		fr.env[x] = c.makeMap(st, x.Type())
	case *ssa.MakeSlice:
		ln := fr.term(x.Len)
		cp := fr.term(x.Cap)
		c.safety(fr, st, "makeslice", And(Ge(ln, IntLit(0)), Le(ln, cp), Lt(cp, IntLitS(pow2str(62)))), x.Pos())
		es := sortOf(x.Type().Underlying().(*types.Slice).Elem())
		r := c.freshRef(st, "arr")
		hn := elemHeapName(es)
		h := c.heap(st, hn, ArrSort(SRef, ArrSort(SInt, es)))
		z := c.asTerm(c.zero(x.Type().Underlying().(*types.Slice).Elem()))
		c.setHeap(st, hn, Store(h, r, c.zeroArray(es, z)))
		fr.env[x] = MkSlice(r, IntLit(0), ln, cp, x.Type())
	case *ssa.MapUpdate:
		c.mapUpdate(fr, st, x)
	case *ssa.Range:
		fr.env[x] = c.rangeInit(fr, st, x)
	case *ssa.Next:
		fr.env[x] = c.rangeNext(fr, st, x)
	case *ssa.Select:
		fr.env[x] = c.selectInstr(fr, st, x)
	case *ssa.Send:
		unsup("channel send")
	case *ssa.Slice:
		fr.env[x] = c.sliceOp(fr, st, x)
	case *ssa.Store:
		c.store(fr, st, fr.eval(x.Addr), fr.eval(x.Val), x.Pos())
	case *ssa.TypeAssert:
		v := fr.term(x.X)
		if x.CommaOk {
			ok := c.fresh("taok", SBool)
			var res Val
			if sortOf(x.AssertedType) == SRef {
				res = c.typed(TG(SRef, x.AssertedType, Ite(ok, v, Null).S), x.AssertedType)
			} else {
				res = c.freshVal("ta", x.AssertedType)
			}
			c.fact(Implies(Eq(v, Null), Not(ok)))
			fr.env[x] = Tuple{res, ok}
		} else {
			if sortOf(x.AssertedType) == SRef {
				fr.env[x] = c.typed(TG(SRef, x.AssertedType, v.S), x.AssertedType)
			} else {
				fr.env[x] = c.freshVal("ta", x.AssertedType)
			}
		}
	case *ssa.SliceToArrayPointer:
		unsup("slice to array pointer")
	// terminators
	case *ssa.Jump:
		c.edge(fr, st, in.Block(), in.Block().Succs[0], True, incoming)
		return false
	case *ssa.If:
		cond := fr.term(x.Cond)
		c.edge(fr, st, in.Block(), in.Block().Succs[0], cond, incoming)
		c.edge(fr, st, in.Block(), in.Block().Succs[1], Not(cond), incoming)
		return false
	case *ssa.Return:
		var res Val
		switch len(x.Results) {
		case 0:
		case 1:
			res = fr.eval(x.Results[0])
		default:
			tup := Tuple{}
			for _, r := range x.Results {
				tup = append(tup, fr.eval(r))
			}
			res = tup
		}
		fr.retVals = append(fr.retVals, retPath{st.clone(), res, in.Block(), x.Pos()})
		return false
	case *ssa.Panic:
		if fr.top || true {
			c.explicitPanic(fr, st, x)
		}
		return false
	default:
		unsup("instruction %T (%s)", in, in)
	}
	return true
}

func blockDominates(fr *Frame, d *deferred) bool { return false }

// blockReaches: is there a control-flow path from a to b?
func blockReaches(a, b *ssa.BasicBlock) bool {
	seen := map[*ssa.BasicBlock]bool{}
	var dfs func(x *ssa.BasicBlock) bool
	dfs = func(x *ssa.BasicBlock) bool {
		if x == b {
			return true
		}
		if seen[x] {
			return false
		}
		seen[x] = true
		for _, s := range x.Succs {
			if dfs(s) {
				return true
			}
		}
		return false
	}
	for _, s := range a.Succs {
		if dfs(s) {
			return true
		}
	}
	return false
}

func (c *VCtx) explicitPanic(fr *Frame, st *State, x *ssa.Panic) {
	// an explicit panic(...) is specified behaviour of the library unless the contract says "nopanic-explicit"
	if c.contract != nil && c.contract.Opts["explicit-panic"] == "forbid" {
		c.prove("nopanic.explicit", "explicit panic unreachable at "+c.eng.pos(x.Pos()), st.pc, False, nil)
	}
}

func (c *VCtx) fieldAddr(base *Term, stT types.Type, f *types.Var) Val {
	ft := f.Type()
	if _, isTP := ft.(*types.TypeParam); !isTP {
		if isStruct(ft) {
			return c.embedAddr(base, stT, f.Name(), ft)
		}
		if _, ok := ft.Underlying().(*types.Array); ok {
			return &Loc{Kind: "arr", Base: c.arrOf(base, stT, f.Name(), ft), GT: ft}
		}
	}
	fs := sortOf(ft)
	return &Loc{Kind: "field", Heap: fieldHeapName(stT, f.Name()), Sort: fs, Base: base, GT: ft}
}

func (c *VCtx) edge(fr *Frame, st *State, from, to *ssa.BasicBlock, cond *Term, incoming map[*ssa.BasicBlock][]inEdge) {
	ns := st.clone()
	ns.pc = And(st.pc, cond)
	if ns.pc.S == "false" {
		return
	}
	ns.pc = c.name("pc", ns.pc)
	// a TryLock result decides on this edge whether the lock is held
	for k, h := range ns.held {
		if h.tryCond == nil {
			continue
		}
		if cond.S == Not(h.tryCond).S {
			delete(ns.held, k)
		} else if cond.S == h.tryCond.S {
			h2 := *h
			h2.tryCond = nil
			ns.held[k] = &h2
		}
	}
	if to.Dominates(from) {
		// back edge: prove the loop invariant is preserved
		c.loopBack(fr, fr.loops[to], ns, from)
		return
	}
	incoming[to] = append(incoming[to], inEdge{from, ns})
}

// ---------- loops ----------

func (c *VCtx) loopInvariants(fr *Frame, li *loopInfo) []*Clause {
	if fr.contract == nil {
		return nil
	}
	if ls := fr.contract.Loops[li.ordinal]; ls != nil {
		return ls.Invariants
	}
	return nil
}

func (c *VCtx) loopHead(fr *Frame, li *loopInfo, st *State, phis []*ssa.Phi) {
	if c.pointsHit == nil {
		c.pointsHit = map[string]bool{}
	}
	c.pointsHit[fmt.Sprintf("%s|loop %d", FuncKey(fr.fn), li.ordinal)] = true
	invs := c.loopInvariants(fr, li)
	// automatic invariants of range-over-slice loops: -1 <= rangeindex < len
	for _, ai := range c.autoRangeInvs(fr, li, phis) {
		c.prove(fmt.Sprintf("loop%d.init.auto-rangeindex", li.ordinal), "range index within bounds on loop entry", st.pc, ai(), nil)
	}
	// 1. invariant holds on entry
	for i, inv := range invs {
		sc := c.loopScope(fr, li, st)
		g := c.translateBool(sc, inv.E)
		c.prove(fmt.Sprintf("loop%d.init.%s", li.ordinal, clauseLabel(inv, i)), "loop invariant holds on entry: "+inv.Src, st.pc, g, nil)
	}
	// 2. havoc what the loop modifies
	mods, all := c.modSet(fr.fn, li.body, 0)
	c.ghostModsIn(fr, mods, li.body)
	if all {
		c.havocAll(st)
	} else {
		bases := c.fieldStoreBases(fr, li)
		cellTargets, cellsOK := c.loopCellTargets(fr, li)
		for h := range mods {
			if h == "G:alloc" {
				// allocation only grows
				old := c.allocHeap(st)
				nw := c.fresh("H!G:alloc", old.Sort)
				c.defFact(nw, T(SBool, fmt.Sprintf("(forall ((r Ref)) (! (=> (select %s r) (select %s r)) :pattern ((select %s r))))", old.S, nw.S, nw.S)))
				st.heaps[h] = nw
				continue
			}
			if h == "G:now" {
				c.observe(st)
				continue
			}
			if strings.HasPrefix(h, "C:") && !strings.HasPrefix(h, "C:glob") && cellsOK {
				// thread-local cells: only those written in the loop (directly or by a closure) change
				cur := c.heap(st, h, mods[h])
				_, vs := arrParts(mods[h])
				for _, l := range cellTargets {
					if l.Heap == h {
						cur = Store(cur, l.Base, c.fresh("cv", vs))
						delete(st.cells, l.Base.S)
					}
				}
				st.heaps[h] = c.name("h", cur)
				continue
			}
			if _, known := c.heapSorts[h]; !known {
				c.heapSorts[h] = mods[h]
			}
			if bs, ok := bases[h]; ok && bs != nil {
				// only the entries of loop-invariant objects are written: havoc just those
				cur := c.heap(st, h, mods[h])
				_, vs := arrParts(mods[h])
				for _, b := range bs {
					nv := c.fresh("hv", vs)
					c.wfValue(st, nv)
					cur = Store(cur, b, nv)
				}
				st.heaps[h] = c.name("h", cur)
				continue
			}
			c.havocHeap(st, h)
		}
	}
	for _, p := range phis {
		fr.env[p] = c.freshVal("phi!"+p.Comment, p.Type())
	}
	c.callerOwnedFacts(st)
	// 3. assume the invariant
	for _, ai := range c.autoRangeInvs(fr, li, phis) {
		c.fact(Implies(st.pc, ai()))
	}
	for _, inv := range invs {
		sc := c.loopScope(fr, li, st)
		c.fact(Implies(st.pc, c.translateBool(sc, inv.E)))
	}
}

func clauseLabel(cl *Clause, i int) string {
	if cl.Label != "" {
		return cl.Label
	}
	return fmt.Sprintf("%d", i+1)
}

// autoRangeInvs recognises "rangeindex = phi[-1, rangeindex+1]; if rangeindex+1 < N" and yields -1 <= rangeindex < max(N,0)... as (rangeindex >= -1 && rangeindex < N || N <= 0 && rangeindex == -1).
func (c *VCtx) autoRangeInvs(fr *Frame, li *loopInfo, phis []*ssa.Phi) []func() *Term {
	var out []func() *Term
	for _, p := range phis {
		if p.Comment != "rangeindex" {
			continue
		}
		p := p
		// find t = p + 1 and the comparison t < N in the header
		var bound ssa.Value
		for _, in := range li.header.Instrs {
			if b, ok := in.(*ssa.BinOp); ok && b.Op == token.LSS {
				if add, ok := b.X.(*ssa.BinOp); ok && add.Op == token.ADD && add.X == p {
					bound = b.Y
				}
			}
		}
		if bound == nil {
			continue
		}
		out = append(out, func() *Term {
			pv := c.asTerm(fr.env[p])
			n := c.asTerm(fr.eval(bound))
			return And(Ge(pv, IntLit(-1)), Or(Lt(pv, n), Eq(pv, IntLit(-1))))
		})
	}
	return out
}

func (c *VCtx) loopBack(fr *Frame, li *loopInfo, st *State, from *ssa.BasicBlock) {
	invs := c.loopInvariants(fr, li)
	{
		var phis []*ssa.Phi
		for _, in := range li.header.Instrs {
			if p, ok := in.(*ssa.Phi); ok {
				phis = append(phis, p)
			}
		}
		if auto := c.autoRangeInvs(fr, li, phis); len(auto) > 0 {
			idx := predIndex(li.header, from)
			saved := map[ssa.Value]Val{}
			var nv []Val
			for _, p := range phis {
				nv = append(nv, fr.eval(p.Edges[idx]))
			}
			for i, p := range phis {
				saved[p] = fr.env[p]
				fr.env[p] = nv[i]
			}
			for _, ai := range auto {
				c.prove(fmt.Sprintf("loop%d.pres.auto-rangeindex", li.ordinal), "range index stays within bounds", st.pc, ai(), nil)
			}
			for p, v := range saved {
				fr.env[p] = v
			}
		}
	}
	if fr.contract != nil && len(fr.contract.Ghost) > 0 {
		// ghost statements at "backedge N": executed whenever the loop goes round again, before the invariant is checked
		c.runGhost(fr, st, fr.contract, fmt.Sprintf("backedge %d", li.ordinal), nil)
	}
	if fr.contract != nil && fr.contract.Asserts != nil {
		// "no busy waiting": what must hold whenever the loop goes round again
		c.pointAsserts(fr, st, fmt.Sprintf("backedge %d", li.ordinal), token.NoPos)
	}
	if len(invs) == 0 {
		return
	}
	// bind header phis to the back-edge values
	saved := map[ssa.Value]Val{}
	idx := predIndex(li.header, from)
	var newVals []Val
	var phis []*ssa.Phi
	for _, in := range li.header.Instrs {
		if p, ok := in.(*ssa.Phi); ok {
			phis = append(phis, p)
			newVals = append(newVals, fr.eval(p.Edges[idx]))
		}
	}
	for i, p := range phis {
		saved[p] = fr.env[p]
		fr.env[p] = newVals[i]
	}
	for i, inv := range invs {
		sc := c.loopScope(fr, li, st)
		g := c.translateBool(sc, inv.E)
		c.prove(fmt.Sprintf("loop%d.pres.%s", li.ordinal, clauseLabel(inv, i)), "loop invariant preserved: "+inv.Src, st.pc, g, nil)
	}
	for p, v := range saved {
		fr.env[p] = v
	}
}

// ghostMods adds the ghost heaps that the frame's ghost statements may write (conservatively: all of them,
// wherever they are attached).
func (c *VCtx) ghostMods(fr *Frame, mods map[string]Sort) {
	c.ghostModsIn(fr, mods, nil)
}

// ghostModsIn: as ghostMods, restricted (where the point can be located) to points inside the given blocks.
func (c *VCtx) ghostModsIn(fr *Frame, mods map[string]Sort, body map[*ssa.BasicBlock]bool) {
	if fr.contract == nil {
		return
	}
	for _, g := range fr.contract.Ghost {
		if g.At == "entry" || g.At == "exit" {
			continue // executed once, outside every loop of the function
		}
		if body != nil && fr.fn != nil && strings.HasPrefix(g.At, "unlock ") {
			inside := false
			for b := range body {
				for _, in := range b.Instrs {
					if ci, ok := in.(ssa.CallInstruction); ok {
						if sc := ci.Common().StaticCallee(); sc != nil && (strings.HasSuffix(sc.Name(), "Unlock") || sc.Name() == "HoldLock" || sc.Name() == "TryHoldLock") {
							inside = true
						}
					}
				}
			}
			if !inside {
				continue
			}
		}
		if body != nil && fr.fn != nil && (strings.HasPrefix(g.At, "close ") || strings.HasPrefix(g.At, "go ") || strings.HasPrefix(g.At, "makechan ")) {
			// only if the loop body contains such an instruction at all
			inside := false
			for b := range body {
				for _, in := range b.Instrs {
					switch x := in.(type) {
					case *ssa.Go:
						if strings.HasPrefix(g.At, "go ") {
							inside = true
						}
					case *ssa.MakeChan:
						if strings.HasPrefix(g.At, "makechan ") {
							inside = true
						}
					case ssa.CallInstruction:
						if bi, ok := x.Common().Value.(*ssa.Builtin); ok && bi.Name() == "close" && strings.HasPrefix(g.At, "close ") {
							inside = true
						}
					}
				}
			}
			if !inside {
				continue
			}
		}
		if body != nil && fr.fn != nil && strings.HasPrefix(g.At, "invoke ") {
			// "invoke <Method>": only if such a call through an interface occurs inside the loop
			inside := false
			for b := range body {
				for _, in := range b.Instrs {
					if ci, ok := in.(ssa.CallInstruction); ok && ci.Common().IsInvoke() && ci.Common().Method.Name() == strings.TrimPrefix(g.At, "invoke ") {
						inside = true
					}
				}
			}
			if !inside {
				continue
			}
		}
		lhs, _, _ := strings.Cut(g.Src, ":=")
		lhs = strings.TrimSpace(lhs)
		switch {
		case strings.Contains(lhs, "("):
			if gi := c.ghostMapByName(lhs[:strings.Index(lhs, "(")]); gi != nil {
				mods[gi.heap] = gi.sort
			}
		case strings.Contains(lhs, "."):
			f := lhs[strings.LastIndex(lhs, ".")+1:]
			for _, pkg := range c.relevantPkgs() {
				for _, sp := range c.eng.Specs[pkg].Objects {
					for _, gf := range sp.Ghost {
						if gf.Name == f {
							name, sort := c.ghostFieldHeapFor(sp, gf)
							mods[name] = sort
						}
					}
				}
			}
		default:
			if c.localMon != nil {
				if hn, hs, ok := c.lmGhostHeap(c.localMon, lhs); ok {
					mods[hn] = hs
				}
			}
		}
	}
}

// fieldStoreBases: for field heaps that the loop body writes only directly (no calls that could write them)
// and only through objects defined before the loop, the set of those objects; nil entry = unknown.
func (c *VCtx) fieldStoreBases(fr *Frame, li *loopInfo) map[string][]*Term {
	out := map[string][]*Term{}
	viaCall := map[string]bool{}
	for b := range li.body {
		for _, in := range b.Instrs {
			switch x := in.(type) {
			case *ssa.Store:
				fa, ok := x.Addr.(*ssa.FieldAddr)
				if !ok {
					continue
				}
				stT := deref(fa.X.Type())
				f := stT.Underlying().(*types.Struct).Field(fa.Field)
				hn := fieldHeapName(stT, f.Name())
				base, ok := fr.env[fa.X].(*Term)
				if _, isParam := fa.X.(*ssa.Parameter); isParam {
					base, ok = fr.env[fa.X].(*Term)
				}
				if !ok || li.body[blockOf(fa.X)] {
					out[hn] = nil
					viaCall[hn] = true
					continue
				}
				if !viaCall[hn] {
					dup := false
					for _, t := range out[hn] {
						if t.S == base.S {
							dup = true
						}
					}
					if !dup {
						out[hn] = append(out[hn], base)
					}
				}
			case ssa.CallInstruction:
				m2, _ := c.callModSet(fr.fn, x.Common(), 0)
				for h := range m2 {
					viaCall[h] = true
					out[h] = nil
				}
			}
		}
	}
	return out
}


// freeVarWritten: may closure fn (or a closure it creates) assign to its idx-th captured variable?
func freeVarWritten(fn *ssa.Function, idx int, depth int) bool {
	if depth > 5 || idx >= len(fn.FreeVars) {
		return true
	}
	fv := fn.FreeVars[idx]
	for _, r := range *fv.Referrers() {
		switch x := r.(type) {
		case *ssa.Store:
			if x.Addr == fv {
				return true
			}
			if x.Val == fv {
				return true
			}
		case *ssa.MakeClosure:
			for j, b := range x.Bindings {
				if b == fv && freeVarWritten(x.Fn.(*ssa.Function), j, depth+1) {
					return true
				}
			}
		case *ssa.UnOp, *ssa.DebugRef:
		case ssa.CallInstruction:
			for _, a := range x.Common().Args {
				if a == fv {
					return true
				}
			}
		default:
			return true
		}
	}
	return false
}

// loopCellTargets lists the pre-existing local cells (captured variables, locals whose address is taken)
// that the loop may write: by a store in the loop body or by any closure that writes its captured copy.
// ok=false: some store goes through a pointer the analysis cannot name.
func (c *VCtx) loopCellTargets(fr *Frame, li *loopInfo) ([]*Loc, bool) {
	var out []*Loc
	ok := true
	fvWritten := freeVarWritten
	written := func(v ssa.Value) bool {
		refs := v.Referrers()
		if refs == nil {
			return true
		}
		for _, r := range *refs {
			switch x := r.(type) {
			case *ssa.Store:
				if x.Addr == v && li.body[x.Block()] {
					return true
				}
				if x.Val == v {
					return true
				}
			case *ssa.MakeClosure:
				for j, b := range x.Bindings {
					if b == v && fvWritten(x.Fn.(*ssa.Function), j, 0) {
						return true
					}
				}
			case *ssa.UnOp, *ssa.DebugRef:
			case ssa.CallInstruction:
				for _, a := range x.Common().Args {
					if a == v && li.body[x.Block()] {
						return true
					}
				}
			case *ssa.IndexAddr, *ssa.FieldAddr, *ssa.Slice:
				// element / field writes are tracked in their own heaps
			default:
				return true
			}
		}
		return false
	}
	consider := func(v ssa.Value) {
		l, isLoc := fr.env[v].(*Loc)
		if !isLoc || l.Kind != "cell" {
			return
		}
		if written(v) {
			out = append(out, l)
		}
	}
	for _, b := range fr.fn.Blocks {
		if li.body[b] {
			continue
		}
		for _, in := range b.Instrs {
			if a, isA := in.(*ssa.Alloc); isA {
				consider(a)
			}
		}
	}
	for _, fv := range fr.fn.FreeVars {
		consider(fv)
	}
	for _, p := range fr.fn.Params {
		consider(p)
	}
	// stores in the loop body through anything else than a named cell / field / element are not analysable
	for b := range li.body {
		for _, in := range b.Instrs {
			if s, isS := in.(*ssa.Store); isS {
				switch s.Addr.(type) {
				case *ssa.Alloc, *ssa.FreeVar, *ssa.Parameter, *ssa.FieldAddr, *ssa.IndexAddr:
				default:
					ok = false
				}
			}
		}
	}
	return out, ok
}

func blockOf(v ssa.Value) *ssa.BasicBlock {
	if in, ok := v.(ssa.Instruction); ok {
		return in.Block()
	}
	return nil
}

// modSet computes the heaps a set of blocks may modify (by name -> sort); all=true means "anything".
func (c *VCtx) modSet(fn *ssa.Function, blocks map[*ssa.BasicBlock]bool, depth int) (map[string]Sort, bool) {
	mods := map[string]Sort{}
	if depth > 6 {
		return mods, true
	}
	all := false
	addStoreTarget := func(addr ssa.Value) {
		switch a := addr.(type) {
		case *ssa.FieldAddr:
			stT := deref(a.X.Type())
			f := stT.Underlying().(*types.Struct).Field(a.Field)
			if _, isTP := f.Type().(*types.TypeParam); !isTP && (isStruct(f.Type())) {
				all = true
				return
			}
			mods[fieldHeapName(stT, f.Name())] = ArrSort(SRef, sortOf(f.Type()))
		case *ssa.IndexAddr:
			var el types.Type
			switch t := a.X.Type().Underlying().(type) {
			case *types.Slice:
				el = t.Elem()
			case *types.Pointer:
				el = t.Elem().Underlying().(*types.Array).Elem()
			}
			es := sortOf(el)
			mods[elemHeapName(es)] = ArrSort(SRef, ArrSort(SInt, es))
		default:
			el := deref(addr.Type())
			if isStruct(el) {
				all = true
				return
			}
			es := sortOf(el)
			mods[cellHeapName(es)] = ArrSort(SRef, es)
		}
	}
	for b := range blocks {
		for _, in := range b.Instrs {
			switch x := in.(type) {
			case *ssa.Store:
				addStoreTarget(x.Addr)
			case *ssa.MapUpdate:
				mt := x.Map.Type().Underlying().(*types.Map)
				d, v, _ := mapHeapNames(mt)
				mods[d] = ArrSort(SRef, ArrSort(sortOf(mt.Key()), SBool))
				mods[v] = ArrSort(SRef, ArrSort(sortOf(mt.Key()), sortOf(mt.Elem())))
			case *ssa.Next:
				// a map iterator advances: its ghost set of visited keys grows
				if rg, ok := x.Iter.(*ssa.Range); ok && !x.IsString {
					if mt, ok := rg.X.Type().Underlying().(*types.Map); ok {
						ks := sortOf(mt.Key())
						mods["G:visited:"+string(ks)] = ArrSort(SRef, ArrSort(ks, SBool))
					}
				}
			case *ssa.Alloc, *ssa.MakeSlice, *ssa.MakeChan, *ssa.MakeMap:
				mods["G:alloc"] = ArrSort(SRef, SBool)
				if ms, ok := x.(*ssa.MakeSlice); ok {
					es := sortOf(ms.Type().Underlying().(*types.Slice).Elem())
					mods[elemHeapName(es)] = ArrSort(SRef, ArrSort(SInt, es))
				}
				if a, ok := x.(*ssa.Alloc); ok {
					el := deref(a.Type())
					if isStruct(el) {
						c.addStructHeaps(mods, el)
					} else if at, ok := el.Underlying().(*types.Array); ok {
						es := sortOf(at.Elem())
						mods[elemHeapName(es)] = ArrSort(SRef, ArrSort(SInt, es))
					} else {
						es := sortOf(el)
						mods[cellHeapName(es)] = ArrSort(SRef, es)
					}
				}
				if mm, ok := x.(*ssa.MakeMap); ok {
					mt := mm.Type().Underlying().(*types.Map)
					d, v, _ := mapHeapNames(mt)
					mods[d] = ArrSort(SRef, ArrSort(sortOf(mt.Key()), SBool))
					mods[v] = ArrSort(SRef, ArrSort(sortOf(mt.Key()), sortOf(mt.Elem())))
				}
			case *ssa.Go:
				// the callee runs in another thread: only the spawn counter changes here
				mods["G:calls"] = ArrSort(SRef, SInt)
			case ssa.CallInstruction:
				m2, a2 := c.callModSet(fn, x.Common(), depth)
				if a2 {
					all = true
					if os.Getenv("GOVC_DEBUG") != "" {
						fmt.Fprintf(os.Stderr, "modSet all via call %s in %s (depth %d)\n", x, fn, depth)
					}
				}
				for k, v := range m2 {
					mods[k] = v
				}
			case *ssa.Select, *ssa.Send:
				// time passes; shared state is re-read only under locks (lock discipline), where it is havocked anyway
				mods["G:now"] = SInt
			case *ssa.UnOp:
				if x.Op == token.ARROW {
					mods["G:now"] = SInt
				}
			}
		}
	}
	return mods, all
}

func (c *VCtx) addStructHeaps(mods map[string]Sort, t types.Type) {
	stt := t.Underlying().(*types.Struct)
	for i := 0; i < stt.NumFields(); i++ {
		f := stt.Field(i)
		if _, isTP := f.Type().(*types.TypeParam); !isTP && isStruct(f.Type()) {
			c.addStructHeaps(mods, f.Type())
			continue
		}
		if at, ok := f.Type().Underlying().(*types.Array); ok {
			es := sortOf(at.Elem())
			mods[elemHeapName(es)] = ArrSort(SRef, ArrSort(SInt, es))
			continue
		}
		mods[fieldHeapName(t, f.Name())] = ArrSort(SRef, sortOf(f.Type()))
	}
}

func (c *VCtx) callModSet(fn *ssa.Function, cc *ssa.CallCommon, depth int) (map[string]Sort, bool) {
	mods := map[string]Sort{}
	if b, ok := cc.Value.(*ssa.Builtin); ok {
		switch b.Name() {
		case "append", "copy":
			if sl, ok := cc.Args[0].Type().Underlying().(*types.Slice); ok {
				es := sortOf(sl.Elem())
				mods[elemHeapName(es)] = ArrSort(SRef, ArrSort(SInt, es))
				mods["G:alloc"] = ArrSort(SRef, SBool)
			}
		case "delete":
			mt := cc.Args[0].Type().Underlying().(*types.Map)
			d, _, _ := mapHeapNames(mt)
			mods[d] = ArrSort(SRef, ArrSort(sortOf(mt.Key()), SBool))
		case "close":
			mods["G:now"] = SInt
		}
		return mods, false
	}
	if cc.IsInvoke() {
		if m := c.invokeModel(cc); m != nil {
			return m.mods(c, cc), false
		}
		return c.externalMods(cc), false
	}
	callee := cc.StaticCallee()
	if callee == nil {
		// closure value known? look at the defining instruction
		if mc, ok := cc.Value.(*ssa.MakeClosure); ok {
			callee = mc.Fn.(*ssa.Function)
		} else {
			m := c.externalMods(cc)
			c.callbackMods(m, cc)
			// the value may be a closure of this function or a bound method handed in by the caller: if it is a
			// parameter of function type whose actual is known only at run time, the ghost effects above are all
			if p, ok := cc.Value.(*ssa.Parameter); ok {
				_ = p
				return m, c.paramFnMayBeLibrary(fn, p)
			}
			return m, false
		}
	}
	if m := c.staticModel(callee); m != nil {
		return m.mods(c, cc), false
	}
	if ct := c.eng.ContractOf(callee); ct != nil && !ct.Inline {
		return c.contractMods(ct, callee), false
	}
	if len(callee.Blocks) > 0 && strings.HasPrefix(fnPkgPath(callee), ModPath) || callee.Parent() != nil {
		all := map[*ssa.BasicBlock]bool{}
		for _, b := range callee.Blocks {
			all[b] = true
		}
		m, a := c.modSet(callee, all, depth+1)
		if ct := c.eng.ContractOf(callee); ct != nil && len(ct.Ghost) > 0 {
			tmp := &Frame{contract: ct}
			c.ghostMods(tmp, m)
		}
		return m, a
	}
	return c.externalMods(cc), false
}

// callbackMods: ghost bookkeeping touched by a call of an opaque function value.
func (c *VCtx) callbackMods(m map[string]Sort, cc *ssa.CallCommon) {
	m["G:calls"] = ArrSort(SRef, SInt)
	m["G:calltime"] = ArrSort(SRef, SInt)
	for i, a := range cc.Args {
		if s := sortOf2(a.Type()); s != "" {
			if _, isSig := a.Type().Underlying().(*types.Signature); !isSig {
				m[fmt.Sprintf("G:lastarg:%d:%s", i, s)] = ArrSort(SRef, s)
			}
		}
	}
	m["G:now"] = SInt
	res := cc.Signature().Results()
	for i := 0; i < res.Len(); i++ {
		s := sortOf2(res.At(i).Type())
		if s != "" {
			m[fmt.Sprintf("G:lastret:%d:%s", i, s)] = ArrSort(SRef, s)
		}
	}
}

// paramFnMayBeLibrary: a function-typed parameter of an inlined library function (e.g. the broadcast /
// getWaitCh arguments of a HoldLock callback) may be bound to library code with arbitrary effects.
func (c *VCtx) paramFnMayBeLibrary(fn *ssa.Function, p *ssa.Parameter) bool {
	return fn.Parent() != nil
}

// externalMods: an unknown callee may modify the contents of slices passed to it and cells passed by pointer.
func (c *VCtx) externalMods(cc *ssa.CallCommon) map[string]Sort {
	mods := map[string]Sort{}
	for _, a := range cc.Args {
		switch t := a.Type().Underlying().(type) {
		case *types.Slice:
			es := sortOf(t.Elem())
			mods[elemHeapName(es)] = ArrSort(SRef, ArrSort(SInt, es))
		}
	}
	return mods
}

// chanSite(ch): identifies the function whose make(chan) created ch (an immutable attribute of the channel).
func (c *VCtx) chanSite(ch *Term) *Term {
	fn := c.declareFun("chansite", []Sort{SRef}, SInt)
	return T(SInt, fmt.Sprintf("(%s %s)", fn, ch.S))
}

var siteIDs = map[int64]string{}
var siteMu sync.Mutex

func siteID(key string) int64 {
	siteMu.Lock()
	defer siteMu.Unlock()
	h := fnv.New64a()
	h.Write([]byte(key))
	id := int64(h.Sum64()>>2) + 1
	if prev, ok := siteIDs[id]; ok && prev != key {
		panic("chansite id collision between " + prev + " and " + key)
	}
	siteIDs[id] = key
	return id
}

// zeroArray: an array whose elements all have the zero value z. A constant array where the solvers accept
// it; for uninterpreted element sorts (cvc5 wants a value there) a declared array with a defining axiom.
func (c *VCtx) zeroArray(es Sort, z *Term) *Term {
	switch es {
	case SInt, SBool:
		return T(ArrSort(SInt, es), fmt.Sprintf("((as const (Array Int %s)) %s)", es, z.S))
	}
	name := "zeroarr!" + strings.Map(func(r rune) rune {
		if r == ' ' || r == '(' || r == ')' {
			return '_'
		}
		return r
	}, string(es)+"!"+z.S)
	a := c.declare(name, ArrSort(SInt, es))
	if !c.declSet["ax:"+name] {
		c.declSet["ax:"+name] = true
		c.facts0(T(SBool, fmt.Sprintf("(forall ((i Int)) (! (= (select %s i) %s) :pattern ((select %s i))))", a.S, z.S, a.S)))
	}
	return a
}


// storesTo counts the store instructions that write the variable cell a (in its function and in closures
// that capture it).
func storesTo(a *ssa.Alloc) int {
	n := 0
	var visit func(v ssa.Value)
	visit = func(v ssa.Value) {
		if v.Referrers() == nil {
			return
		}
		for _, r := range *v.Referrers() {
			switch x := r.(type) {
			case *ssa.Store:
				if x.Addr == v {
					n++
				}
			case *ssa.MakeClosure:
				for j, b := range x.Bindings {
					if b == v {
						visit(x.Fn.(*ssa.Function).FreeVars[j])
					}
				}
			}
		}
	}
	visit(a)
	return n
}
