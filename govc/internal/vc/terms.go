package vc

import (
	"fmt"
	"go/types"
	"math/big"
	"strings"
)

// Sort is an SMT-LIB sort, written out.
type Sort string

const (
	SBool  Sort = "Bool"
	SInt   Sort = "Int"
	SRef   Sort = "Ref"
	SAny   Sort = "Any"   // values of type-parameter type
	SSlice Sort = "Slice" // (mk-slice arr off len cap)
	SStr   Sort = "Str"   // (mk-str len data)
)

func ArrSort(k, v Sort) Sort { return Sort(fmt.Sprintf("(Array %s %s)", k, v)) }

// Term is an SMT term with its sort and (when it denotes a Go value) its Go type.
type Term struct {
	S    string
	Sort Sort
	GT   types.Type
}

func (t *Term) String() string { return t.S }

func T(sort Sort, s string) *Term { return &Term{S: s, Sort: sort} }
func TG(sort Sort, gt types.Type, s string) *Term {
	return &Term{S: s, Sort: sort, GT: gt}
}

func app(op string, args ...*Term) string {
	var sb strings.Builder
	sb.WriteString("(")
	sb.WriteString(op)
	for _, a := range args {
		sb.WriteString(" ")
		sb.WriteString(a.S)
	}
	sb.WriteString(")")
	return sb.String()
}

var (
	True  = T(SBool, "true")
	False = T(SBool, "false")
	Null  = T(SRef, "null")
)

func IntLit(n int64) *Term {
	if n < 0 {
		return T(SInt, fmt.Sprintf("(- %d)", -n))
	}
	return T(SInt, fmt.Sprintf("%d", n))
}
func IntLitS(s string) *Term {
	if strings.HasPrefix(s, "-") {
		return T(SInt, "(- "+s[1:]+")")
	}
	return T(SInt, s)
}

func And(ts ...*Term) *Term {
	var xs []*Term
	for _, t := range ts {
		if t == nil || t.S == "true" {
			continue
		}
		if t.S == "false" {
			return False
		}
		xs = append(xs, t)
	}
	if len(xs) == 0 {
		return True
	}
	if len(xs) == 1 {
		return xs[0]
	}
	return T(SBool, app("and", xs...))
}
func Or(ts ...*Term) *Term {
	var xs []*Term
	for _, t := range ts {
		if t == nil || t.S == "false" {
			continue
		}
		if t.S == "true" {
			return True
		}
		xs = append(xs, t)
	}
	if len(xs) == 0 {
		return False
	}
	if len(xs) == 1 {
		return xs[0]
	}
	return T(SBool, app("or", xs...))
}
func Not(t *Term) *Term {
	if t.S == "true" {
		return False
	}
	if t.S == "false" {
		return True
	}
	if strings.HasPrefix(t.S, "(not ") {
		return T(SBool, t.S[5:len(t.S)-1])
	}
	return T(SBool, app("not", t))
}
func Implies(a, b *Term) *Term {
	if a.S == "true" {
		return b
	}
	if a.S == "false" || b.S == "true" {
		return True
	}
	return T(SBool, app("=>", a, b))
}
func Eq(a, b *Term) *Term {
	if a.S == b.S {
		return True
	}
	return T(SBool, app("=", a, b))
}
func Ite(c, a, b *Term) *Term {
	if c.S == "true" {
		return a
	}
	if c.S == "false" {
		return b
	}
	if a.S == b.S {
		return a
	}
	return &Term{S: app("ite", c, a, b), Sort: a.Sort, GT: a.GT}
}
func Select(arr, idx *Term) *Term {
	// result sort: strip "(Array K V)"
	_, v := arrParts(arr.Sort)
	return T(v, app("select", arr, idx))
}
func Store(arr, idx, v *Term) *Term {
	return T(arr.Sort, app("store", arr, idx, v))
}

// arrParts splits "(Array K V)" into K and V.
func arrParts(s Sort) (Sort, Sort) {
	str := string(s)
	if !strings.HasPrefix(str, "(Array ") {
		panic("not an array sort: " + str)
	}
	body := str[len("(Array ") : len(str)-1]
	// K is the first balanced token
	depth := 0
	for i, c := range body {
		switch c {
		case '(':
			depth++
		case ')':
			depth--
		case ' ':
			if depth == 0 {
				return Sort(body[:i]), Sort(body[i+1:])
			}
		}
	}
	panic("bad array sort: " + str)
}

func Add(a, b *Term) *Term { return T(SInt, app("+", a, b)) }
func Sub(a, b *Term) *Term { return T(SInt, app("-", a, b)) }
func Mul(a, b *Term) *Term { return T(SInt, app("*", a, b)) }
func Lt(a, b *Term) *Term  { return T(SBool, app("<", a, b)) }
func Le(a, b *Term) *Term  { return T(SBool, app("<=", a, b)) }
func Gt(a, b *Term) *Term  { return T(SBool, app(">", a, b)) }
func Ge(a, b *Term) *Term  { return T(SBool, app(">=", a, b)) }

// Slice accessors
func SlArr(s *Term) *Term { return T(SRef, app("s-arr", s)) }
func SlOff(s *Term) *Term { return T(SInt, app("s-off", s)) }
func SlLen(s *Term) *Term { return T(SInt, app("s-len", s)) }
func SlCap(s *Term) *Term { return T(SInt, app("s-cap", s)) }
func SIdx(s, k *Term) *Term  { return T(SInt, app("sidx", s, k)) }
func MkSlice(arr, off, ln, cp *Term, gt types.Type) *Term {
	return TG(SSlice, gt, app("mk-slice", arr, off, ln, cp))
}
func StrLen(s *Term) *Term  { return T(SInt, app("slen", s)) }
func StrData(s *Term) *Term { return T(ArrSort(SInt, SInt), app("str-data", s)) }
func MkStr(ln, data *Term) *Term {
	return T(SStr, app("mk-str", ln, data))
}

// Prelude is emitted at the top of every obligation.
const preludeTmpl = `(set-option :produce-models true)
(set-logic ALL)
(declare-sort Ref 0)
(declare-sort Any 0)
(declare-const null Ref)
(declare-const zero_Any Any)
(declare-datatypes ((Slice 0)) (((mk-slice (s-arr Ref) (s-off Int) (s-len Int) (s-cap Int)))))
(declare-datatypes ((Str 0)) (((mk-str (str-len Int) (str-data (Array Int Int))))))
(define-fun nil_slice () Slice (mk-slice null 0 0 0))
(declare-fun card ((Array Ref Bool)) Int)
(declare-fun fin ((Array Ref Bool)) Bool)
(define-fun emptyset () (Array Ref Bool) ((as const (Array Ref Bool)) false))
(assert (and (fin emptyset) (= (card emptyset) 0)))
(assert (forall ((S (Array Ref Bool)) (c Ref) (b Bool)) (! (=> (fin S) (and (fin (store S c b)) (= (card (store S c b)) (+ (card S) (ite (and b (not (select S c))) 1 0) (ite (and (not b) (select S c)) (- 1) 0))))) :pattern ((card (store S c b))) :pattern ((fin (store S c b))))))
(assert (forall ((S (Array Ref Bool))) (! (=> (fin S) (>= (card S) 0)) :pattern ((card S)))))
(assert (forall ((S (Array Ref Bool)) (c Ref)) (! (=> (and (fin S) (select S c)) (>= (card S) 1)) :pattern ((select S c) (card S)))))
(define-fun slen ((s Str)) Int (ite (< (str-len s) 0) 0 (str-len s)))
@@FUNS@@
(define-fun gorem ((x Int) (y Int)) Int (ite (>= x 0) (mod x (abs y)) (- (mod (- x) (abs y)))))
(define-fun godiv ((x Int) (y Int)) Int (ite (>= x 0) (ite (> y 0) (div x y) (- (div x (- y)))) (ite (> y 0) (- (div (- x) y)) (div (- x) (- y)))))
(define-fun wrap_s ((x Int) (half Int)) Int (ite (and (>= x (- half)) (< x half)) x (- (mod (+ x half) (* 2 half)) half)))
(define-fun wrap_u ((x Int) (m Int)) Int (ite (and (>= x 0) (< x m)) x (mod x m)))
@@POW2@@
`

const funsTriggered = `(declare-fun sidx (Slice Int) Int)
(assert (forall ((s Slice) (k Int)) (! (= (sidx s k) (+ (s-off s) k)) :pattern ((sidx s k)))))
(declare-fun hasprefix (Str Str) Bool)
(assert (forall ((s Str) (p Str)) (! (= (hasprefix s p) (and (<= (slen p) (slen s)) (forall ((i Int)) (! (=> (and (<= 0 i) (< i (slen p))) (= (select (str-data s) i) (select (str-data p) i))) :pattern ((select (str-data p) i)) :pattern ((select (str-data s) i)))))) :pattern ((hasprefix s p)))))
(declare-fun streq (Str Str) Bool)
(assert (forall ((a Str) (b Str)) (! (= (streq a b) (and (= (slen a) (slen b)) (forall ((i Int)) (! (=> (and (<= 0 i) (< i (slen a))) (= (select (str-data a) i) (select (str-data b) i))) :pattern ((select (str-data a) i)) :pattern ((select (str-data b) i)))))) :pattern ((streq a b)))))
`

const funsMacro = `(define-fun sidx ((s Slice) (k Int)) Int (+ (s-off s) k))
(define-fun hasprefix ((s Str) (p Str)) Bool (and (<= (slen p) (slen s)) (forall ((i Int)) (=> (and (<= 0 i) (< i (slen p))) (= (select (str-data s) i) (select (str-data p) i))))))
(define-fun streq ((a Str) (b Str)) Bool (and (= (slen a) (slen b)) (forall ((i Int)) (=> (and (<= 0 i) (< i (slen a))) (= (select (str-data a) i) (select (str-data b) i))))))
`

// Prelude is the proof-oriented prelude (uninterpreted functions with triggered definitional axioms);
// PreludeMacro defines the same functions as macros, which model finders handle better.
var Prelude = strings.Replace(strings.Replace(preludeTmpl, "@@FUNS@@\n", funsTriggered, 1), "@@POW2@@", pow2Defs(), 1)
var PreludeMacro = strings.Replace(strings.Replace(preludeTmpl, "@@FUNS@@\n", funsMacro, 1), "@@POW2@@", pow2Defs(), 1)

// pow2Defs defines pow2(k) and shr(x,k) (logical/arithmetic right shift as floor division) for 0 <= k <= 64
// as ite chains over constant divisors, so that no non-linear term reaches the solver.
func pow2Defs() string {
	var p, sh strings.Builder
	p.WriteString("(define-fun pow2 ((k Int)) Int ")
	sh.WriteString("(define-fun shr ((x Int) (k Int)) Int ")
	for k := 0; k <= 64; k++ {
		v := new(big.Int).Lsh(big.NewInt(1), uint(k)).String()
		fmt.Fprintf(&p, "(ite (= k %d) %s ", k, v)
		if k == 0 {
			fmt.Fprintf(&sh, "(ite (<= k 0) x ")
		} else {
			fmt.Fprintf(&sh, "(ite (= k %d) (div x %s) ", k, v)
		}
	}
	p.WriteString("0" + strings.Repeat(")", 65) + ")\n")
	sh.WriteString("(ite (>= x 0) 0 (- 1))" + strings.Repeat(")", 65) + ")")
	return p.String() + sh.String()
}
