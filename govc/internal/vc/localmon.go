package vc

import (
	"fmt"
	"go/token"
	"strings"

	"golang.org/x/tools/go/ssa"
)

// Local monitors: a function-local Broadcast / mutex variable that guards other local variables which
// closures (usually goroutines started by the function) share with it. The declaring function's contract
// carries "localmonitor <lockvar> guards v1, v2", ghost locals ("lghost") and invariants ("linv"); the
// contracts of the closures that use the same variables repeat the localmonitor line (names then resolve
// to their captured variables). Ghost locals live in ghost heaps indexed by the lock object.

type localMonState struct {
	spec    *LocalMonitor
	key     string // contract key of the declaring (outermost) function: names the ghost heaps
	lockRef *Term
	cells   map[string]*Loc // guarded variable name -> cell
	shared  bool            // a goroutine that can reach the variables has been started
	fr      *Frame
	entry   *State
}

func (c *VCtx) lmGhostHeap(lm *localMonState, name string) (string, Sort, bool) {
	for _, g := range lm.spec.Ghost {
		if g.Name == name {
			sc := &Scope{c: c, pkg: fnPkgPath(c.top)}
			s, _ := c.specSort(sc, g.Type)
			return "G:lm." + lm.key + "." + name, ArrSort(SRef, s), true
		}
	}
	return "", "", false
}

// lmOuterKey: closures share the ghost heaps of the outermost declaring function.
func lmOuterKey(fn *ssa.Function) string {
	f := fn
	for f.Parent() != nil {
		f = f.Parent()
	}
	return shortPkg(fnPkgPath(f)) + "." + FuncKey(f)
}

// lmNoteAlloc is called for every Alloc of a frame whose contract declares a local monitor.
func (c *VCtx) lmNoteAlloc(fr *Frame, name string, v Val) {
	if fr.contract == nil || fr.contract.LocalMon == nil {
		return
	}
	spec := fr.contract.LocalMon
	if c.localMon == nil {
		c.localMon = &localMonState{spec: spec, key: lmOuterKey(fr.fn), cells: map[string]*Loc{}, fr: fr}
	}
	lm := c.localMon
	if name == spec.LockVar {
		if t, ok := v.(*Term); ok {
			lm.lockRef = t
			// ghost locals start at their zero value
		}
	}
	for _, g := range spec.Vars {
		if g == name {
			if l, ok := v.(*Loc); ok {
				lm.cells[name] = l
			}
		}
	}
}

// lmFromFreeVars sets up the local monitor of a closure verified on its own (a goroutine body).
func (c *VCtx) lmFromFreeVars(fr *Frame) {
	if fr.contract == nil || fr.contract.LocalMon == nil || c.localMon != nil || len(fr.fn.FreeVars) == 0 {
		return
	}
	spec := fr.contract.LocalMon
	lm := &localMonState{spec: spec, key: lmOuterKey(fr.fn), cells: map[string]*Loc{}, fr: fr, shared: true}
	for _, f := range fr.fn.FreeVars {
		if f.Name() == spec.LockVar {
			if t, ok := fr.env[f].(*Term); ok {
				lm.lockRef = t
			}
		}
		for _, g := range spec.Vars {
			if g == f.Name() {
				if l, ok := fr.env[f].(*Loc); ok {
					lm.cells[g] = l
				}
			}
		}
	}
	c.localMon = lm
}

func (c *VCtx) lmScope(st, old *State) *Scope {
	lm := c.localMon
	sc := &Scope{c: c, vars: map[string]Val{}, st: st, old: old, pkg: fnPkgPath(c.top)}
	if c.me != nil {
		sc.vars["me"] = c.me
	}
	for name, l := range lm.cells {
		sc.vars[name] = l // deref'd on lookup
	}
	return sc
}

// lmIsLock: is the mutex at address lock the local monitor's lock?
func (c *VCtx) lmIsLock(lock *Term) bool {
	lm := c.localMon
	if lm == nil || lm.lockRef == nil {
		return false
	}
	if lock.S == lm.lockRef.S {
		return true
	}
	if info := c.embedded[lock.S]; info != nil && len(info.chain) > 0 && info.chain[0].term.S == lm.lockRef.S {
		return true
	}
	return false
}

func (c *VCtx) lmAcquire(st *State, lock *Term) {
	if !c.lmIsLock(lock) {
		return
	}
	lm := c.localMon
	st.lmHeld = true
	if lm.shared {
		for _, l := range lm.cells {
			h := c.heap(st, l.Heap, ArrSort(SRef, l.Sort))
			nv := c.fresh("lv", l.Sort)
			c.wfValue(st, nv)
			st.heaps[l.Heap] = c.name("h", Store(h, l.Base, nv))
			delete(st.cells, l.Base.S)
		}
		for _, g := range lm.spec.Ghost {
			hn, hs, _ := c.lmGhostHeap(lm, g.Name)
			h := c.heap(st, hn, hs)
			_, vs := arrParts(hs)
			st.heaps[hn] = c.name("h", Store(h, lm.lockRef, c.fresh("lg", vs)))
		}
	}
	sc := c.lmScope(st, st)
	for _, inv := range lm.spec.Invs {
		c.factG(st.pc, c.translateBool(sc, inv.E))
	}
	for _, b := range lm.spec.Bounded {
		if l, ok := lm.cells[b]; ok {
			v := c.asTerm(c.load(nil, st, l, 0))
			c.fact(Implies(st.pc, And(Lt(v, IntLitS(pow2str(62))), Gt(v, IntLitS("-"+pow2str(62))))))
			c.eng.assume("local counter " + b + " does not overflow (|value| < 2^62)")
		}
	}
	lm.entry = st.clone()
}

func (c *VCtx) lmRelease(st *State, lock *Term, pos token.Pos) {
	if !c.lmIsLock(lock) {
		return
	}
	lm := c.localMon
	sc := c.lmScope(st, lm.entry)
	for i, inv := range lm.spec.Invs {
		c.prove(fmt.Sprintf("cs%d.linv.%s", c.csCount, clauseLabel(inv, i)),
			fmt.Sprintf("invariant of the local monitor %s restored at unlock (%s): %s", lm.spec.LockVar, c.eng.pos(pos), inv.Src), st.pc, c.translateBool(sc, inv.E), nil)
	}
	st.lmHeld = false
}

// lmCheckCell: access to a guarded local variable; returns true if the value read is unreliable
// (shared variable read without the lock).
func (c *VCtx) lmCheckCell(fr *Frame, st *State, l *Loc, write bool, pos token.Pos) bool {
	lm := c.localMon
	if lm == nil || fr == nil {
		return false
	}
	name := ""
	for n, cl := range lm.cells {
		if cl.Base.S == l.Base.S {
			name = n
		}
	}
	if name == "" {
		return false
	}
	what := "read"
	if write {
		what = "write"
	}
	desc := fmt.Sprintf("%s of local variable %s at %s is protected by the local monitor %s", what, name, c.eng.pos(pos), lm.spec.LockVar)
	if !lm.shared || st.lmHeld {
		c.staticObl("own.local."+name, desc, true, "")
		return false
	}
	c.staticObl("own.local."+name, desc, false, "variable is shared with goroutines started by this function and accessed without holding "+lm.spec.LockVar)
	return true
}

// lmSpawn: a goroutine has been started; if it can reach the guarded variables they are shared from now on.
func (c *VCtx) lmSpawn() {
	if c.localMon != nil {
		c.localMon.shared = true
	}
}

func (c *VCtx) lmLookup(sc *Scope, name string) (Val, bool) {
	lm := c.localMon
	if lm == nil || lm.lockRef == nil {
		return nil, false
	}
	if hn, hs, ok := c.lmGhostHeap(lm, name); ok {
		return Select(c.heap(sc.state(), hn, hs), lm.lockRef), true
	}
	if l, ok := lm.cells[name]; ok && !strings.Contains(name, ".") {
		return c.load(nil, sc.state(), l, 0), true
	}
	return nil, false
}

// pubCellCheck: a captured variable declared "published ... by <chan> token <map>" is written only by the
// holder of the token before the channel is closed, and read only by the holder or after the close.
func (c *VCtx) pubCellCheck(fr *Frame, st *State, l *Loc, write bool, pos token.Pos) {
	if c.pubCells == nil || c.contract == nil || l.Base == nil || c.pubCells[l.Base.S] == nil {
		return
	}
	top := c.curTopFrame(fr)
	if top == nil {
		return
	}
	sc := &Scope{c: c, vars: map[string]Val{}, st: st, old: st, fr: top, pkg: fnPkgPath(top.fn), exitOf: top.curBlock}
	if c.me != nil {
		sc.vars["me"] = c.me
	}
	chE, err := ParseExpr(c.contract.PubChan)
	if err != nil {
		unsup("published: %v", err)
	}
	ch := c.asTerm(c.translate(sc, chE))
	tokE, _ := ParseExpr(c.contract.PubToken + "(" + c.contract.PubChan + ") == me")
	mine := c.translateBool(sc, tokE)
	what := "read"
	goal := Or(c.isClosed(st, ch), mine)
	if write {
		what = "write"
		goal = And(mine, Not(c.isClosed(st, ch)))
	}
	name := ""
	for _, f := range top.fn.FreeVars {
		if lf, ok := top.env[f].(*Loc); ok && lf.Base != nil && lf.Base.S == l.Base.S {
			name = f.Name()
		}
	}
	c.prove("own.published."+name, fmt.Sprintf("%s of captured variable %s at %s follows the publication discipline (token holder before close(%s), anybody after)", what, name, c.eng.pos(pos), c.contract.PubChan), st.pc, goal, nil)
	c.obls[len(c.obls)-1].Props = c.ownProps()
}

func (c *VCtx) curTopFrame(fr *Frame) *Frame {
	for f := fr; f != nil; f = f.parent {
		if f.top {
			return f
		}
	}
	return nil
}
