package vc

import (
	"fmt"
	"go/token"
	"strings"

	"golang.org/x/tools/go/ssa"
)

// Local monitors: a function-local Broadcast / mutex variable that guards other local variables which
// closures (usually goroutines started by the function) share with it. The declaring function's contract
// carries "localmonitor <lockvar> guards v1, v2", ghost locals ("lghost") and invariants ("linv"); the
// contracts of the closures that use the same variables repeat the localmonitor line (names then resolve
// to their captured variables). Ghost locals live in ghost heaps indexed by the lock object.

type localMonState struct {
	spec    *LocalMonitor
	key     string // contract key of the declaring (outermost) function: names the ghost heaps
	lockRef *Term
	cells   map[string]*Loc // guarded variable name -> cell
	shared  bool            // a goroutine that can reach the variables has been started
	fr      *Frame
	entry   *State
}

func (c *VCtx) lmGhostHeap(lm *localMonState, name string) (string, Sort, bool) {
	for _, g := range lm.spec.Ghost {
		if g.Name == name {
			sc := &Scope{c: c, pkg: fnPkgPath(c.top)}
			s, _ := c.specSort(sc, g.Type)
			return "G:lm." + lm.key + "." + name, ArrSort(SRef, s), true
		}
	}
	return "", "", false
}

// lmOuterKey: closures share the ghost heaps of the outermost declaring function.
func lmOuterKey(fn *ssa.Function) string {
	f := fn
	for f.Parent() != nil {
		f = f.Parent()
	}
	return shortPkg(fnPkgPath(f)) + "." + FuncKey(f)
}

// lmNoteAlloc is called for every Alloc of a frame whose contract declares a local monitor.
func (c *VCtx) lmNoteAlloc(fr *Frame, name string, v Val) {
	if fr.contract == nil || fr.contract.LocalMon == nil {
		return
	}
	spec := fr.contract.LocalMon
	if c.localMon == nil {
		c.localMon = &localMonState{spec: spec, key: lmOuterKey(fr.fn), cells: map[string]*Loc{}, fr: fr}
	}
	lm := c.localMon
	if name == spec.LockVar {
		if t, ok := v.(*Term); ok {
			lm.lockRef = t
			// ghost locals start at their zero value
		}
	}
	for _, g := range spec.Vars {
		if g == name {
			if l, ok := v.(*Loc); ok {
				lm.cells[name] = l
			}
		}
	}
}

// lmFromFreeVars sets up the local monitor of a closure verified on its own (a goroutine body).
func (c *VCtx) lmFromFreeVars(fr *Frame) {
	if fr.contract == nil || fr.contract.LocalMon == nil || c.localMon != nil || len(fr.fn.FreeVars) == 0 {
		return
	}
	spec := fr.contract.LocalMon
	lm := &localMonState{spec: spec, key: lmOuterKey(fr.fn), cells: map[string]*Loc{}, fr: fr, shared: true}
	for _, f := range fr.fn.FreeVars {
		if f.Name() == spec.LockVar {
			if t, ok := fr.env[f].(*Term); ok {
				lm.lockRef = t
			}
		}
		for _, g := range spec.Vars {
			if g == f.Name() {
				if l, ok := fr.env[f].(*Loc); ok {
					lm.cells[g] = l
				}
			}
		}
	}
	c.localMon = lm
}

func (c *VCtx) lmScope(st, old *State) *Scope {
	lm := c.localMon
	sc := &Scope{c: c, vars: map[string]Val{}, st: st, old: old, pkg: fnPkgPath(c.top)}
	if c.me != nil {
		sc.vars["me"] = c.me
	}
	for name, l := range lm.cells {
		sc.vars[name] = l // deref'd on lookup
	}
	return sc
}

// lmIsLock: is the mutex at address lock the local monitor's lock?
func (c *VCtx) lmIsLock(lock *Term) bool {
	lm := c.localMon
	if lm == nil || lm.lockRef == nil {
		return false
	}
	if lock.S == lm.lockRef.S {
		return true
	}
	if info := c.embedded[lock.S]; info != nil && len(info.chain) > 0 && info.chain[0].term.S == lm.lockRef.S {
		return true
	}
	return false
}

func (c *VCtx) lmAcquire(st *State, lock *Term) {
	if !c.lmIsLock(lock) {
		return
	}
	lm := c.localMon
	st.lmHeld = true
	if lm.shared {
		for _, l := range lm.cells {
			h := c.heap(st, l.Heap, ArrSort(SRef, l.Sort))
			nv := c.fresh("lv", l.Sort)
			c.wfValue(st, nv)
			st.heaps[l.Heap] = c.name("h", Store(h, l.Base, nv))
			delete(st.cells, l.Base.S)
		}
		for _, g := range lm.spec.Ghost {
			hn, hs, _ := c.lmGhostHeap(lm, g.Name)
			h := c.heap(st, hn, hs)
			_, vs := arrParts(hs)
			st.heaps[hn] = c.name("h", Store(h, lm.lockRef, c.fresh("lg", vs)))
		}
	}
	sc := c.lmScope(st, st)
	for _, inv := range lm.spec.Invs {
		c.factG(st.pc, c.translateBool(sc, inv.E))
	}
	for _, b := range lm.spec.Bounded {
		if l, ok := lm.cells[b]; ok {
			v := c.asTerm(c.load(nil, st, l, 0))
			c.fact(Implies(st.pc, And(Lt(v, IntLitS(pow2str(62))), Gt(v, IntLitS("-"+pow2str(62))))))
			c.eng.assume("local counter " + b + " does not overflow (|value| < 2^62)")
		}
	}
	lm.entry = st.clone()
}

func (c *VCtx) lmRelease(st *State, lock *Term, pos token.Pos) {
	if !c.lmIsLock(lock) {
		return
	}
	lm := c.localMon
	sc := c.lmScope(st, lm.entry)
	for i, inv := range lm.spec.Invs {
		c.prove(fmt.Sprintf("cs%d.linv.%s", c.csCount, clauseLabel(inv, i)),
			fmt.Sprintf("invariant of the local monitor %s restored at unlock (%s): %s", lm.spec.LockVar, c.eng.pos(pos), inv.Src), st.pc, c.translateBool(sc, inv.E), nil)
	}
	st.lmHeld = false
}

// lmCheckCell: access to a guarded local variable; returns true if the value read is unreliable
// (shared variable read without the lock).
func (c *VCtx) lmCheckCell(fr *Frame, st *State, l *Loc, write bool, pos token.Pos) bool {
	lm := c.localMon
	if lm == nil || fr == nil {
		return false
	}
	name := ""
	for n, cl := range lm.cells {
		if cl.Base.S == l.Base.S {
			name = n
		}
	}
	if name == "" {
		return false
	}
	what := "read"
	if write {
		what = "write"
	}
	desc := fmt.Sprintf("%s of local variable %s at %s is protected by the local monitor %s", what, name, c.eng.pos(pos), lm.spec.LockVar)
	if !lm.shared || st.lmHeld {
		c.staticObl("own.local."+name, desc, true, "")
		return false
	}
	c.staticObl("own.local."+name, desc, false, "variable is shared with goroutines started by this function and accessed without holding "+lm.spec.LockVar)
	return true
}

// lmSpawn: a goroutine has been started; if it can reach the guarded variables they are shared from now on.
func (c *VCtx) lmSpawn() {
	if c.localMon != nil {
		c.localMon.shared = true
	}
}

func (c *VCtx) lmLookup(sc *Scope, name string) (Val, bool) {
	lm := c.localMon
	if lm == nil || lm.lockRef == nil {
		return nil, false
	}
	if hn, hs, ok := c.lmGhostHeap(lm, name); ok {
		return Select(c.heap(sc.state(), hn, hs), lm.lockRef), true
	}
	if l, ok := lm.cells[name]; ok && !strings.Contains(name, ".") {
		return c.load(nil, sc.state(), l, 0), true
	}
	return nil, false
}

// pubCellCheck: a captured variable declared "published ... by <chan> token <map>" is written only by the
// holder of the token before the channel is closed, and read only by the holder or after the close.
func (c *VCtx) pubCellCheck(fr *Frame, st *State, l *Loc, write bool, pos token.Pos) {
	if c.pubCells == nil || c.contract == nil || l.Base == nil || c.pubCells[l.Base.S] == nil {
		return
	}
	top := c.curTopFrame(fr)
	if top == nil {
		return
	}
	sc := &Scope{c: c, vars: map[string]Val{}, st: st, old: st, fr: top, pkg: fnPkgPath(top.fn), exitOf: top.curBlock}
	if c.me != nil {
		sc.vars["me"] = c.me
	}
	chE, err := ParseExpr(c.contract.PubChan)
	if err != nil {
		unsup("published: %v", err)
	}
	ch := c.asTerm(c.translate(sc, chE))
	tokE, _ := ParseExpr(c.contract.PubToken + "(" + c.contract.PubChan + ") == me")
	mine := c.translateBool(sc, tokE)
	what := "read"
	goal := Or(c.isClosed(st, ch), mine)
	if write {
		what = "write"
		goal = And(mine, Not(c.isClosed(st, ch)))
	}
	name := ""
	for _, f := range top.fn.FreeVars {
		if lf, ok := top.env[f].(*Loc); ok && lf.Base != nil && lf.Base.S == l.Base.S {
			name = f.Name()
		}
	}
	c.prove("own.published."+name, fmt.Sprintf("%s of captured variable %s at %s follows the publication discipline (token holder before close(%s), anybody after)", what, name, c.eng.pos(pos), c.contract.PubChan), st.pc, goal, nil)
	c.obls[len(c.obls)-1].Props = c.ownProps()
}

func (c *VCtx) curTopFrame(fr *Frame) *Frame {
	for f := fr; f != nil; f = f.parent {
		if f.top {
			return f
		}
	}
	return nil
}

// localRaceSweep: a local variable that is captured (possibly through nested closures) by a function started
// with "go", read or written there, and written by the declaring function after the capturing closure was
// created, is accessed by two goroutines without any ordering between the accesses - unless a local monitor
// guards it. One static obligation per such variable (C13).
func (c *VCtx) localRaceSweep(fn *ssa.Function) {
	guarded := map[string]bool{}
	if ct := c.contract; ct != nil && ct.LocalMon != nil {
		for _, v := range ct.LocalMon.Vars {
			guarded[v] = true
		}
		guarded[ct.LocalMon.LockVar] = true
	}
	// does closure g (transitively) contain a go-started function that touches free variable #idx?
	var usedByGo func(g *ssa.Function, idx int, spawned bool, depth int) bool
	usedByGo = func(g *ssa.Function, idx int, spawned bool, depth int) bool {
		if depth > 6 || idx >= len(g.FreeVars) {
			return false
		}
		fv := g.FreeVars[idx]
		for _, ref := range *fv.Referrers() {
			switch x := ref.(type) {
			case *ssa.UnOp, *ssa.Store:
				if spawned {
					return true
				}
			case *ssa.MakeClosure:
				inner := x.Fn.(*ssa.Function)
				for j, b := range x.Bindings {
					if b != fv {
						continue
					}
					sp := spawned
					for _, r2 := range *x.Referrers() {
						if _, isGo := r2.(*ssa.Go); isGo {
							sp = true
						}
					}
					if usedByGo(inner, j, sp, depth+1) {
						return true
					}
				}
			}
		}
		return false
	}
	for _, b := range fn.Blocks {
		for _, in := range b.Instrs {
			a, ok := in.(*ssa.Alloc)
			if !ok || a.Comment == "" || guarded[a.Comment] || a.Referrers() == nil {
				continue
			}
			var closures []*ssa.MakeClosure
			for _, ref := range *a.Referrers() {
				if mc, ok := ref.(*ssa.MakeClosure); ok {
					for j, bnd := range mc.Bindings {
						if bnd == a {
							sp := false
							for _, r2 := range *mc.Referrers() {
								if _, isGo := r2.(*ssa.Go); isGo {
									sp = true
								}
							}
							if usedByGo(mc.Fn.(*ssa.Function), j, sp, 0) {
								closures = append(closures, mc)
							}
						}
					}
				}
			}
			if len(closures) == 0 {
				continue
			}
			racy := ""
			for _, ref := range *a.Referrers() {
				st, ok := ref.(*ssa.Store)
				if !ok || st.Addr != a {
					continue
				}
				for _, mc := range closures {
					after := mc.Block() == st.Block() && indexIn(mc.Block(), mc) < indexIn(st.Block(), st)
					// (a path that goes through the variable's declaration again creates a new variable)
					if after || (mc.Block() != st.Block() && blockReachesAvoiding(mc.Block(), st.Block(), a.Block())) {
						if orderedByClose(fn, a, st) {
							continue
						}
						racy = c.eng.pos(st.Pos())
					}
				}
			}
			desc := fmt.Sprintf("local variable %s is not written by its function after a goroutine that uses it may have been started", a.Comment)
			if racy != "" {
				c.staticObl("own.local."+a.Comment, desc, false, "written at "+racy+" after being captured by a closure that starts (or is) a goroutine reading it; no lock orders the two accesses")
			} else {
				c.staticObl("own.local."+a.Comment, desc, true, "")
			}
			c.obls[len(c.obls)-1].Props = c.ownProps()
		}
	}
}

func indexIn(b *ssa.BasicBlock, in ssa.Instruction) int {
	for i, x := range b.Instrs {
		if x == in {
			return i
		}
	}
	return -1
}

// orderedByClose: the write st to local variable v is published by a close(ch) of a local channel variable that
// follows it, and every go-started function that uses v first receives from that channel.
func orderedByClose(fn *ssa.Function, v *ssa.Alloc, st *ssa.Store) bool {
	for _, b := range fn.Blocks {
		for i, in := range b.Instrs {
			call, ok := in.(*ssa.Call)
			if !ok {
				continue
			}
			bi, ok := call.Call.Value.(*ssa.Builtin)
			if !ok || bi.Name() != "close" {
				continue
			}
			ld, ok := call.Call.Args[0].(*ssa.UnOp)
			if !ok {
				continue
			}
			chVar, ok := ld.X.(*ssa.Alloc)
			if !ok {
				continue
			}
			// the close comes after the write
			if !(b == st.Block() && indexIn(b, st) < i) && !(b != st.Block() && blockReaches(st.Block(), b) && !blockReaches(b, st.Block())) {
				continue
			}
			if usesAfterRecv(fn, v, chVar, 0) {
				return true
			}
		}
	}
	return false
}

// usesAfterRecv: in every go-started function reachable through closures of g that captures v, each use of v
// is dominated by a receive from chVar (captured as well).
func usesAfterRecv(g *ssa.Function, v, chVar ssa.Value, depth int) bool {
	if depth > 6 || v.Referrers() == nil {
		return false
	}
	ok := true
	for _, ref := range *v.Referrers() {
		mc, isMC := ref.(*ssa.MakeClosure)
		if !isMC {
			continue
		}
		inner := mc.Fn.(*ssa.Function)
		var iv, ic *ssa.FreeVar
		for j, b := range mc.Bindings {
			if b == v {
				iv = inner.FreeVars[j]
			}
			if b == chVar {
				ic = inner.FreeVars[j]
			}
		}
		if iv == nil {
			continue
		}
		spawned := false
		for _, r2 := range *mc.Referrers() {
			if _, isGo := r2.(*ssa.Go); isGo {
				spawned = true
			}
		}
		if spawned {
			if ic == nil || !readsDominatedByRecv(inner, iv, ic) {
				ok = false
			}
			continue
		}
		// a closure that is not itself started with go: its own direct uses are synchronous (same goroutine as
		// whoever calls it, ordered by that call); look for goroutines started inside it
		if ic == nil {
			// the channel is not visible below this closure: any go-started user further down cannot wait for it
			if startsGoroutineUsing(inner, iv, 0) {
				ok = false
			}
			continue
		}
		if !usesAfterRecv(inner, iv, ic, depth+1) {
			ok = false
		}
	}
	return ok
}

func readsDominatedByRecv(g *ssa.Function, v, ch *ssa.FreeVar) bool {
	var recvs []ssa.Instruction
	for _, r := range *ch.Referrers() {
		ld, ok := r.(*ssa.UnOp)
		if !ok || ld.Referrers() == nil {
			continue
		}
		for _, r2 := range *ld.Referrers() {
			if u, ok := r2.(*ssa.UnOp); ok && u.Op == token.ARROW {
				recvs = append(recvs, u)
			}
		}
	}
	if len(recvs) == 0 {
		return false
	}
	for _, r := range *v.Referrers() {
		use, ok := r.(ssa.Instruction)
		if !ok {
			continue
		}
		dom := false
		for _, rc := range recvs {
			if rc.Block() == use.Block() && indexIn(rc.Block(), rc) < indexIn(use.Block(), use) {
				dom = true
			} else if rc.Block() != use.Block() && rc.Block().Dominates(use.Block()) {
				dom = true
			}
		}
		if !dom {
			return false
		}
	}
	return true
}

func startsGoroutineUsing(g *ssa.Function, v *ssa.FreeVar, depth int) bool {
	if depth > 6 || v.Referrers() == nil {
		return false
	}
	for _, ref := range *v.Referrers() {
		if mc, ok := ref.(*ssa.MakeClosure); ok {
			inner := mc.Fn.(*ssa.Function)
			for j, b := range mc.Bindings {
				if b != v {
					continue
				}
				for _, r2 := range *mc.Referrers() {
					if _, isGo := r2.(*ssa.Go); isGo {
						return true
					}
				}
				if startsGoroutineUsing(inner, inner.FreeVars[j], depth+1) {
					return true
				}
			}
		}
	}
	return false
}

// blockReachesAvoiding: is there a control-flow path from a to b that does not pass through avoid?
// (b == avoid counts only if the store precedes nothing of interest: callers handle same-block order.)
func blockReachesAvoiding(a, b, avoid *ssa.BasicBlock) bool {
	seen := map[*ssa.BasicBlock]bool{}
	var dfs func(x *ssa.BasicBlock) bool
	dfs = func(x *ssa.BasicBlock) bool {
		if x == avoid && x != a {
			return false
		}
		if x == b {
			return true
		}
		if seen[x] {
			return false
		}
		seen[x] = true
		for _, s := range x.Succs {
			if dfs(s) {
				return true
			}
		}
		return false
	}
	for _, s := range a.Succs {
		if dfs(s) {
			return true
		}
	}
	return false
}
