package vc

import (
	"fmt"
	"go/types"
	"sort"
	"strings"

	"golang.org/x/tools/go/ssa"
)

func (e *Engine) preludeFor(c *VCtx) string {
	return Prelude
}

// VerifyFunc generates all obligations of one function under contract.
func (e *Engine) VerifyFunc(fn *ssa.Function, ct *FuncContract) (obls []*Obligation, err error) {
	c := e.newCtx(fn, ct)
	defer func() {
		delete(fnTermTable, c)
		delete(iterTable, c)
		if r := recover(); r != nil {
			if u, ok := r.(unsupported); ok {
				err = fmt.Errorf("%s.%s: outside the supported subset: %s", shortPkg(fnPkgPath(fn)), FuncKey(fn), u.msg)
				obls = c.obls
				return
			}
			panic(r)
		}
	}()
	st := &State{pc: True, heaps: map[string]*Term{}, held: map[string]*heldLock{}, cells: map[string]Val{}}
	fr := c.newFrame(fn, nil)
	fr.top = true
	c.me = c.declare("me", SRef)
	c.packageAxioms(fnPkgPath(fn))
	var args []Val
	for i, p := range fn.Params {
		v := c.freshVal("p!"+p.Name(), p.Type())
		fr.env[p] = v
		args = append(args, v)
		c.knownAll(st, v)
		if i == 0 && fn.Signature.Recv() != nil {
			if t, ok := v.(*Term); ok && t.Sort == SRef && ct.Opts["nil-receiver"] == "" {
				// (a method that handles a nil receiver itself says "opt nil-receiver = ok")
				c.fact(Not(Eq(t, Null)))
				e.assume("method receivers are non-nil")
			}
		}
	}
	var fv *FnVal
	if len(fn.FreeVars) > 0 {
		fv = &FnVal{Fn: fn}
		for _, f := range fn.FreeVars {
			v := c.freshVal("fv!"+f.Name(), f.Type())
			c.knownAll(st, v)
			if l, ok := v.(*Loc); ok {
				c.fact(Not(Eq(l.Base, Null)))
			} else if t, ok := v.(*Term); ok && t.Sort == SRef {
				if _, isPtr := f.Type().Underlying().(*types.Pointer); isPtr {
					c.fact(Not(Eq(t, Null)))
				}
			}
			fr.env[f] = v
			fv.Binds = append(fv.Binds, v)
			for _, n := range ct.PubCells {
				if l, ok := v.(*Loc); ok && n == f.Name() && l.Base != nil {
					if c.pubCells == nil {
						c.pubCells = map[string]*Loc{}
					}
					c.pubCells[l.Base.S] = l
				}
			}
		}
	}
	// captured function variables declared to hold a sibling closure over the same variables
	for v, key := range ct.Binds {
		var slot *ssa.FreeVar
		for _, f := range fn.FreeVars {
			if f.Name() == v {
				slot = f
			}
		}
		g := siblingClosure(fn, key)
		if slot == nil || g == nil {
			unsup("bind %s = %s: no such captured variable or sibling closure", v, key)
		}
		gv := &FnVal{Fn: g}
		for _, gf := range g.FreeVars {
			var val Val
			for _, f := range fn.FreeVars {
				if f.Name() == gf.Name() && types.Identical(f.Type(), gf.Type()) {
					val = fr.env[f]
				}
			}
			if val == nil {
				// a variable only the sibling captures: nothing is known about it here
				val = c.freshVal("fv!"+gf.Name(), gf.Type())
				c.knownAll(st, val)
				if l, ok := val.(*Loc); ok && l.Base != nil {
					c.fact(Not(Eq(l.Base, Null)))
				}
			}
			gv.Binds = append(gv.Binds, val)
		}
		if l, isCell := fr.env[slot].(*Loc); isCell && l.Kind == "cell" && l.Base != nil {
			// captured by reference: the variable's cell holds the closure (nobody reassigns it: checked at creation)
			if st.cells == nil {
				st.cells = map[string]Val{}
			}
			st.cells[l.Base.S] = gv
			continue
		}
		fr.env[slot] = gv
		for i, f := range fn.FreeVars {
			if f == slot {
				fv.Binds[i] = gv
			}
		}
	}
	// captured variables are distinct variables
	if fv != nil {
		var bases []*Term
		for _, b := range fv.Binds {
			if l, ok := b.(*Loc); ok && l.Kind == "cell" && l.Base != nil {
				bases = append(bases, l.Base)
			}
		}
		if len(bases) > 1 {
			var parts []string
			for _, b := range bases {
				parts = append(parts, b.S)
			}
			c.fact(T(SBool, "(distinct "+strings.Join(parts, " ")+")"))
		}
	}
	fr.args = args
	c.lmFromFreeVars(fr)
	c.entry = st.clone()
	inputs := c.inputSpecs(fn, args, st)
	defer func() {
		for _, o := range c.obls {
			o.Inputs = append(append([]InputSpec{}, inputs...), c.envVals...)
			o.Pkg = fnPkgPath(fn)
		}
		obls = c.obls
	}()
	// this invocation has not written anything yet (thread-local write counters start at zero)
	c.writesZero = true
	c.fact(Not(Eq(c.me, Null)))
	c.fact(Not(Select(c.allocHeap(st), c.me)))
	for _, g := range c.ghostMaps() {
		if g.kind == "owned" {
			if ct != nil && strings.Contains(" "+ct.Opts["inherits"]+" ", " "+g.name+" ") {
				// entries of this map may have been handed to this invocation by whoever spawned it (see the precondition)
				continue
			}
			ks, _ := arrParts(g.sort)
			h := c.heap(st, g.heap, g.sort)
			c.fact(T(SBool, fmt.Sprintf("(forall ((k %s)) (! (not (= (select %s k) me)) :pattern ((select %s k))))", ks, h.S, h.S)))
		}
	}
	c.monitorEntry(fr, st, ct)
	if c.heldAtEntry == nil {
		c.assumeGlobal(st, nil)
	} else {
		for _, g := range c.globalClauses() {
			if !g.trans {
				c.fact(c.translateBool(c.globalScope(g.pkg, st, nil), g.cl.E))
			}
		}
	}
	sc := c.contractScope(fn, ct, fv, args, st, st, nil)
	for _, r := range ct.ClosureInv {
		c.fact(c.translateBool(sc, r.E))
	}
	for _, r := range ct.Requires {
		c.fact(c.translateBool(sc, r.E))
		// a precondition that is just a boolean parameter (or its negation) fixes that parameter
		switch e := r.E.(type) {
		case *EIdent:
			for i, p := range fn.Params {
				if p.Name() == e.Name && sortOf(p.Type()) == SBool {
					fr.env[p], args[i] = True, True
				}
			}
		case *EUnary:
			if id, ok := e.X.(*EIdent); ok && e.Op == "!" {
				for i, p := range fn.Params {
					if p.Name() == id.Name && sortOf(p.Type()) == SBool {
						fr.env[p], args[i] = False, False
					}
				}
			}
		}
	}
	// vacuity guard: the precondition (with type invariants) must be satisfiable
	c.prove("vacuity", "preconditions are satisfiable (this query must be SAT)", True, False, nil)
	c.obls[len(c.obls)-1].Kind = "vacuity"
	c.localRaceSweep(fn)
	entry := st.clone()
	out, res := c.execFunction(fr, st)
	if out.pc.S != "false" {
		// postconditions are proved separately on every return path (simpler queries, named by source order)
		// reachability covers: every return path must be consistent with all the facts assumed on the way
		// (an inconsistent assumption - contradictory invariant, bad rely - would make every proof vacuous)
		for k, rp := range fr.retVals {
			if ct.Opts["dead"] == fmt.Sprintf("ret%d", k+1) {
				// declared dead code: proved unreachable instead
				c.prove(fmt.Sprintf("dead.ret%d", k+1), fmt.Sprintf("return path %d (%s) is dead code", k+1, e.pos(rp.pos)), rp.st.pc, False, nil)
				continue
			}
			c.prove(fmt.Sprintf("reach.ret%d", k+1), fmt.Sprintf("return path %d (%s) is reachable: the assumptions made on the way are consistent (this query must not be UNSAT)", k+1, e.pos(rp.pos)), rp.st.pc, False, nil)
			c.obls[len(c.obls)-1].Kind = "vacuity"
		}
		ensuresHit := map[int]bool{}
		if len(fr.retVals) > 1 && ct.Opts["ensures"] != "merged" {
			defer func() {
				for i, en := range ct.Ensures {
					if !ensuresHit[i] {
						c.eng.Errors = append(c.eng.Errors, "postcondition applies to no return path: "+en.Src)
					}
				}
			}()
			for k, rp := range fr.retVals {
				sc2 := c.contractScope(fn, ct, fv, args, rp.st, entry, rp.val)
				sc2.fr = fr
				sc2.exitOf = rp.block
				for i, en := range ct.Ensures {
					// a clause may talk about locals that exist only on some return paths; it must apply to at least one
					g := c.tryTranslate(sc2, en.E)
					if g == nil {
						continue
					}
					ensuresHit[i] = true
					c.prove(fmt.Sprintf("ensures.%s@ret%d", clauseLabel(en, i), k+1), fmt.Sprintf("postcondition on return path %d (%s): %s", k+1, e.pos(rp.pos), en.Src), rp.st.pc, g, nil)
				}
			}
		} else {
			sc2 := c.contractScope(fn, ct, fv, args, out, entry, res)
			sc2.fr = fr
			for i, en := range ct.Ensures {
				g := c.translateBool(sc2, en.E)
				c.prove("ensures."+clauseLabel(en, i), "postcondition: "+en.Src, out.pc, g, nil)
			}
		}
		c.monitorExit(fr, out, ct)
		if len(c.freshObjs) > 0 && len(c.globalClauses()) > 0 && len(out.held) == 0 {
			// objects created here become reachable for others when the function returns
			unpub := false
			for _, r := range c.freshObjs {
				if !c.isPublished(r) {
					unpub = true
				}
			}
			if unpub {
				c.assertGlobal(out, nil, "exit")
			}
		}
		// every program point named by the contract must exist in the current code (no silently vacuous clause)
		for pt := range ct.Asserts {
			if !c.pointsHit[FuncKey(fn)+"|"+pt] {
				unsup("the contract asserts something at %q but the function has no such point any more", pt)
			}
		}
		for n := range ct.Loops {
			if !c.pointsHit[fmt.Sprintf("%s|loop %d", FuncKey(fn), n)] {
				unsup("the contract has invariants for loop %d but the function has no such (reachable) loop", n)
			}
		}
		if ct.Opts["frame"] != "skip" {
			c.frameCheck(fn, ct, args, entry, out)
		}
	}
	return c.obls, nil
}

// frameCheck: every heap the function changed on pre-existing objects must be covered by modifies.
func (c *VCtx) frameCheck(fn *ssa.Function, ct *FuncContract, args []Val, entry, out *State) {
	allowed := map[string]string{}
	for _, m := range ct.Modifies {
		name, _ := c.resolveModifies(m, fn)
		if strings.HasPrefix(m, "this.") {
			allowed[name] = "this"
		} else {
			allowed[name] = "all"
		}
	}
	var names []string
	for k := range out.heaps {
		names = append(names, k)
	}
	sort.Strings(names)
	alloc0 := c.allocHeap(entry)
	for _, k := range names {
		if k == "G:lastcs" || strings.HasPrefix(k, "G:writes:") {
			continue // thread-local bookkeeping
		}
		if k == "G:now" {
			if allowed[k] == "" && h0IsNot(out.heaps[k], c.heap(entry, k, SInt)) {
				c.prove("frame."+k, "frame: abstract time does not advance (no synchronisation, no close) unless 'modifies time' is declared", out.pc, False, nil)
			}
			continue
		}
		if k == "G:alloc" || strings.HasPrefix(k, "G:visited") || k == "G:itermap" || k == "G:calltime" || strings.HasPrefix(k, "G:lastret:") || strings.HasPrefix(k, "G:lastarg:") || k == "G:recvs" {
			// engine bookkeeping; always havocked at call sites of contracted functions
			continue
		}
		if allowed[k] == "all" {
			continue
		}
		if out.epoch != entry.epoch {
			c.prove("frame."+k, "frame: everything was havocked (select/recv or unknown effects) but modifies does not allow it", out.pc, False, nil)
			return
		}
		h0 := c.heap(entry, k, c.heapSorts[k])
		h1 := out.heaps[k]
		if h0.S == h1.S {
			continue
		}
		cond := "(select " + alloc0.S + " r)"
		if allowed[k] == "this" {
			cond = fmt.Sprintf("(and %s (not (= r %s)))", cond, c.asTerm(args[0]).S)
		}
		goal := T(SBool, fmt.Sprintf("(forall ((r Ref)) (=> %s (= (select %s r) (select %s r))))", cond, h1.S, h0.S))
		c.prove("frame."+k, "frame: "+k+" unchanged on pre-existing objects (not in modifies)", out.pc, goal, nil)
	}
}

// VerifyLemma emits the obligation of a pure lemma.
func (e *Engine) VerifyLemma(lm *Lemma) (obls []*Obligation, err error) {
	c := e.newCtx(nil, nil)
	c.props = lm.Props
	defer func() {
		if r := recover(); r != nil {
			if u, ok := r.(unsupported); ok {
				err = fmt.Errorf("lemma %s: %s", lm.Name, u.msg)
				return
			}
			panic(r)
		}
	}()
	sc := &Scope{c: c, vars: map[string]Val{}, pkg: lm.Pkg, st: &State{pc: True, heaps: map[string]*Term{}, held: map[string]*heldLock{}}}
	sc.old = sc.st
	for _, v := range lm.Vars {
		s, gt := c.specSort(sc, v.Type)
		t := c.declare("lv!"+v.Name, s)
		t.GT = gt
		if gt != nil {
			sc.vars[v.Name] = c.typed(t, gt)
		} else {
			sc.vars[v.Name] = t
		}
	}
	g := c.translateBool(sc, lm.C.E)
	var sb strings.Builder
	sb.WriteString(Prelude)
	for _, d := range c.decls {
		sb.WriteString(d + "\n")
	}
	for _, f := range c.facts {
		sb.WriteString("(assert " + f.S + ")\n")
	}
	sb.WriteString("(assert (not " + g.S + "))\n(check-sat)\n")
	o := &Obligation{Name: shortPkg(lm.Pkg) + ".lemma." + lm.Name, Props: lm.Props, Kind: "lemma", Func: "lemma " + lm.Name, SMT: sb.String(), Desc: lm.C.Src}
	return []*Obligation{o}, nil
}

// packageAxioms adds the package's declared axioms (definitional axioms of uninterpreted spec functions).
func (c *VCtx) packageAxioms(pkg string) {
	ps := c.eng.Specs[pkg]
	if ps == nil {
		return
	}
	for _, ax := range ps.Axioms {
		sc := &Scope{c: c, vars: map[string]Val{}, pkg: pkg, st: &State{pc: True, heaps: map[string]*Term{}, held: map[string]*heldLock{}}}
		sc.old = sc.st
		c.fact(c.translateBool(sc, ax.C.E))
		c.eng.assume("axiom " + shortPkg(pkg) + "." + ax.Name + ": " + ax.C.Src)
	}
}

func h0IsNot(a, b *Term) bool { return a == nil || a.S != b.S }

// siblingClosure finds the closure with the given contract key among the anonymous functions of fn's parent.
func siblingClosure(fn *ssa.Function, key string) *ssa.Function {
	p := fn.Parent()
	if p == nil {
		return nil
	}
	for _, a := range p.AnonFuncs {
		if k := FuncKey(a); k == key || bareName(k) == bareName(key) {
			return a
		}
	}
	return nil
}
