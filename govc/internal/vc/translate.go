package vc

import (
	"fmt"
	"go/constant"
	"go/types"
	"strings"

	"golang.org/x/tools/go/ssa"
)

// Scope is the environment in which a contract expression is translated.
type Scope struct {
	c     *VCtx
	vars  map[string]Val
	st    *State // current state
	old   *State // state referred to by old(...)
	fr    *Frame
	at    *ssa.BasicBlock
	pkg   string
	inOld bool
	pure  bool
	exitOf *ssa.BasicBlock // function exit reached from this block (per-path postconditions)
}

func (sc *Scope) child() *Scope {
	n := *sc
	n.vars = map[string]Val{}
	for k, v := range sc.vars {
		n.vars[k] = v
	}
	return &n
}

func (sc *Scope) state() *State {
	if sc.inOld && sc.old != nil {
		return sc.old
	}
	return sc.st
}

func (c *VCtx) translateBool(sc *Scope, e Expr) *Term {
	v := c.translate(sc, e)
	t, ok := v.(*Term)
	if !ok || t.Sort != SBool {
		unsup("contract expression is not boolean")
	}
	return t
}

// loopScope: names resolve to loop-header phis, then to the closest dominating source-level binding.
func (c *VCtx) loopScope(fr *Frame, li *loopInfo, st *State) *Scope {
	return &Scope{c: c, vars: c.baseVars(fr), st: st, old: fr.entry, fr: fr, at: li.header, pkg: fnPkgPath(fr.fn)}
}

func (c *VCtx) baseVars(fr *Frame) map[string]Val {
	vars := map[string]Val{}
	if c.me != nil {
		vars["me"] = c.me
	}
	return vars
}

// contractScope binds parameter names (and result names) of callee to the given values.
func (c *VCtx) contractScope(callee *ssa.Function, ct *FuncContract, fv *FnVal, args []Val, st, old *State, res Val) *Scope {
	sc := &Scope{c: c, vars: map[string]Val{}, st: st, old: old, pkg: fnPkgPath(callee)}
	if c.me != nil {
		sc.vars["me"] = c.me
	}
	for i, p := range callee.Params {
		if i < len(args) {
			sc.vars[p.Name()] = c.typed(args[i], p.Type())
			if i == 0 && callee.Signature.Recv() != nil {
				sc.vars["this"] = sc.vars[p.Name()]
			}
		}
	}
	if fv != nil {
		for i, f := range callee.FreeVars {
			if i < len(fv.Binds) {
				sc.vars[f.Name()] = fv.Binds[i]
			}
		}
	}
	if res != nil {
		sc.vars["result"] = res
		if tup, ok := res.(Tuple); ok {
			for i, r := range tup {
				sc.vars[fmt.Sprintf("result%d", i)] = r
			}
		}
		results := callee.Signature.Results()
		for i := 0; i < results.Len(); i++ {
			if n := results.At(i).Name(); n != "" && n != "_" {
				if tup, ok := res.(Tuple); ok {
					sc.vars[n] = tup[i]
				} else {
					sc.vars[n] = res
				}
			}
		}
	}
	return sc
}

func (sc *Scope) lookup(name string) (Val, bool) {
	if v, ok := sc.c.lmLookup(sc, name); ok {
		if _, isGhost, _ := func() (string, bool, bool) {
			if sc.c.localMon == nil {
				return "", false, false
			}
			_, _, g := sc.c.lmGhostHeap(sc.c.localMon, name)
			return "", g, true
		}(); isGhost {
			return v, true
		}
	}
	if v, ok := sc.lookup1(name); ok {
		return v, true
	}
	if v, ok := sc.c.lmLookup(sc, name); ok {
		return v, true
	}
	// ghost code and assertions of an inlined closure may name variables of the frames that (transitively)
	// called it (e.g. the release closure's status cell from inside its critical-section callback)
	if sc.fr != nil {
		for p := sc.fr.parent; p != nil; p = p.parent {
			n := *sc
			n.fr, n.at, n.exitOf, n.vars = p, nil, p.curBlock, map[string]Val{}
			if v, ok := n.lookup1(name); ok {
				return v, true
			}
		}
	}
	return nil, false
}

func (sc *Scope) lookup1(name string) (Val, bool) {
	c := sc.c
	if v, ok := sc.vars[name]; ok {
		return sc.deref(v), true
	}
	if sc.fr != nil {
		fr := sc.fr
		for _, f := range fr.fn.FreeVars {
			if f.Name() == name {
				if _, ok := fr.env[f]; ok {
					return sc.deref(fr.env[f]), true
				}
			}
		}
		// candidates: source-level bindings (debug refs) and phis named after the variable; the closest one
		// that dominates the point of interest wins (at == nil: function exit, any unique binding)
		type cand struct {
			val    ssa.Value
			block  *ssa.BasicBlock
			idx    int
			isAddr bool
		}
		var cands []cand
		for _, b := range fr.dbg[name] {
			cands = append(cands, cand{b.val, b.block, b.idx, b.isAddr})
		}
		for _, blk := range fr.fn.Blocks {
			for _, in := range blk.Instrs {
				if p, ok := in.(*ssa.Phi); ok && p.Comment == name {
					cands = append(cands, cand{p, blk, -1, false})
				}
			}
		}
		var best *cand
		ambiguous := false
		for i := range cands {
			b := &cands[i]
			switch b.val.(type) {
			case *ssa.Const, *ssa.Parameter, *ssa.FreeVar:
			default:
				if _, ok := fr.env[b.val]; !ok {
					continue
				}
			}
			if sc.at == nil && sc.exitOf != nil {
				if !(b.block == sc.exitOf || b.block.Dominates(sc.exitOf)) {
					continue
				}
				if best == nil || (best.block != b.block && best.block.Dominates(b.block)) || (best.block == b.block && b.idx > best.idx) {
					best = b
				}
			} else if sc.at != nil {
				if !(b.block == sc.at || b.block.Dominates(sc.at)) {
					continue
				}
				if b.block == sc.at && b.idx >= 0 {
					// bindings inside the header itself come after the phis: not valid at the loop cut point
					if _, isPhi := b.val.(*ssa.Phi); !isPhi {
						continue
					}
					if b.val.(*ssa.Phi).Block() != sc.at {
						continue
					}
				}
				if best == nil || (best.block != b.block && best.block.Dominates(b.block)) || (best.block == b.block && b.idx > best.idx) {
					best = b
				}
			} else {
				if best != nil && best.val != b.val {
					ambiguous = true
				}
				best = b
			}
		}
		if ambiguous {
			// a variable that lives in a cell: its current content
			for i := range cands {
				if cands[i].isAddr {
					if _, ok := fr.env[cands[i].val]; ok {
						v := fr.eval(cands[i].val)
						if t, isT := v.(*Term); isT {
							return t, true
						}
						return c.load(fr, sc.state(), v, 0), true
					}
				}
			}
		}
		if ambiguous {
			unsup("name %q is ambiguous at function exit (several bindings); use a parameter or result name", name)
		}
		if best != nil {
			v := fr.eval(best.val)
			if best.isAddr {
				if t, isT := v.(*Term); isT {
					return t, true // variable of struct type: its name denotes the object
				}
				return c.load(fr, sc.state(), v, 0), true
			}
			return v, true
		}
		for _, p := range fr.fn.Params {
			if p.Name() == name {
				return fr.env[p], true
			}
		}
		for _, f := range fr.fn.FreeVars {
			if f.Name() == name {
				return sc.deref(fr.env[f]), true
			}
		}
		// a variable kept in a cell without debug bindings (named results of a function with deferred calls)
		if len(fr.fn.Blocks) > 0 {
			for _, in := range fr.fn.Blocks[0].Instrs {
				if a, ok := in.(*ssa.Alloc); ok && a.Comment == name {
					if _, ok := fr.env[a]; ok {
						return c.load(fr, sc.state(), fr.eval(a), 0), true
					}
				}
			}
		}
	}
	// package-level constant
	if p := c.eng.TPkgs[sc.pkg]; p != nil {
		if k, ok := p.Types.Scope().Lookup(name).(*types.Const); ok {
			if k.Val().Kind() == constant.Int {
				return IntLitS(k.Val().ExactString()), true
			}
			if k.Val().Kind() == constant.Bool {
				if constant.BoolVal(k.Val()) {
					return True, true
				}
				return False, true
			}
		}
		if g, ok := p.Types.Scope().Lookup(name).(*types.Var); ok {
			if sp := c.eng.SPkgs[sc.pkg]; sp != nil {
				if gl, ok := sp.Members[name].(*ssa.Global); ok {
					_ = g
					return c.globalVal(gl), true
				}
			}
		}
	}
	return nil, false
}

// deref: captured variables are cells; in contracts their name denotes the content.
func (sc *Scope) deref(v Val) Val {
	if l, ok := v.(*Loc); ok && (l.Kind == "cell" || l.Kind == "field") {
		return sc.c.load(nil, sc.state(), l, 0)
	}
	return v
}

func (c *VCtx) specSort(sc *Scope, ty string) (Sort, types.Type) {
	switch ty {
	case "int", "int64", "uint64", "byte", "uint8", "int32", "uint32":
		return SInt, nil
	case "bool":
		return SBool, nil
	case "ref", "chan", "func", "error", "inv":
		return SRef, nil
	case "any", "K", "V", "T":
		return SAny, nil
	case "string":
		return SStr, nil
	case "[]byte":
		return SSlice, types.NewSlice(types.Typ[types.Uint8])
	case "[]string":
		return SSlice, types.NewSlice(types.Typ[types.String])
	case "[][]byte":
		return SSlice, types.NewSlice(types.NewSlice(types.Typ[types.Uint8]))
	}
	if strings.HasPrefix(ty, "set[") {
		k, _ := c.specSort(sc, ty[4:len(ty)-1])
		return ArrSort(k, SBool), nil
	}
	if strings.HasPrefix(ty, "map[") {
		// map[K]V as a total function K -> V
		end := strings.Index(ty, "]")
		k, _ := c.specSort(sc, ty[4:end])
		v, _ := c.specSort(sc, ty[end+1:])
		return ArrSort(k, v), nil
	}
	if strings.HasPrefix(ty, "seq[") {
		v, _ := c.specSort(sc, ty[4:len(ty)-1])
		return ArrSort(SInt, v), nil
	}
	name := strings.TrimPrefix(ty, "*")
	pkgPath := sc.pkg
	if i := strings.Index(name, "."); i >= 0 {
		// pkg.Type: find by package name among loaded packages
		pn := name[:i]
		name = name[i+1:]
		for path, p := range c.eng.TPkgs {
			if p.Name == pn {
				pkgPath = path
			}
		}
	}
	if p := c.eng.TPkgs[pkgPath]; p != nil {
		if obj := p.Types.Scope().Lookup(name); obj != nil {
			if tn, ok := obj.(*types.TypeName); ok {
				t := tn.Type()
				if strings.HasPrefix(ty, "*") || isStruct(t) {
					return SRef, types.NewPointer(t)
				}
				return sortOf(t), t
			}
		}
	}
	unsup("unknown type %q in contract", ty)
	return "", nil
}

func (c *VCtx) translate(sc *Scope, e Expr) Val {
	switch x := e.(type) {
	case *EInt:
		var n int64
		if strings.HasPrefix(x.V, "0x") {
			fmt.Sscanf(x.V[2:], "%x", &n)
			return IntLit(n)
		}
		return IntLitS(x.V)
	case *EBool:
		if x.V {
			return True
		}
		return False
	case *ENil:
		return Null
	case *EStr:
		return c.strLit(x.V)
	case *EIdent:
		if v, ok := sc.lookup(x.Name); ok {
			return v
		}
		if sf := c.specFunc(sc.pkg, x.Name); sf != nil && len(sf.Params) == 0 {
			return c.applySpec(sc, sf, nil)
		}
		unsup("unknown identifier %q in contract of %s", x.Name, FuncKey(c.top))
	case *EOld:
		n := *sc
		n.inOld = true
		return c.translate(&n, x.X)
	case *EUnary:
		v := c.asTerm(c.translate(sc, x.X))
		if x.Op == "!" {
			return Not(v)
		}
		return T(SInt, app("-", v))
	case *EBinary:
		return c.translateBinary(sc, x)
	case *EField:
		return c.translateField(sc, x)
	case *EIndex:
		base := c.translate(sc, x.X)
		idx := c.asTerm(c.translate(sc, x.I))
		return c.indexVal(sc, base, idx)
	case *ESlice:
		unsup("slice expressions in contracts are not supported; use quantifiers")
	case *ECall:
		return c.translateCall(sc, x)
	case *EQuant:
		n := sc.child()
		var binders []string
		var guards []*Term
		for _, v := range x.Vars {
			s, gt := c.specSort(sc, v.Type)
			name := sym("q!" + v.Name)
			binders = append(binders, fmt.Sprintf("(%s %s)", name, s))
			t := TG(s, gt, name)
			if gt != nil {
				n.vars[v.Name] = c.typed(t, gt)
			} else {
				n.vars[v.Name] = t
			}
			switch v.Type {
			case "byte", "uint8":
				guards = append(guards, And(Ge(t, IntLit(0)), Le(t, IntLit(255))))
			}
		}
		if x.Forall && c.exemptFresh != nil {
			// the invariant is not demanded of objects this invocation created and has not yet made reachable
			ex := c.exemptFresh
			c.exemptFresh = nil
			for _, b := range x.Vars {
				if t, ok := n.vars[b.Name].(*Term); ok && t.Sort == SRef {
					for _, r := range ex {
						guards = append(guards, Not(Eq(t, r)))
					}
				}
			}
		}
		body := c.translateBool(n, x.Body)
		q := "forall"
		if !x.Forall {
			q = "exists"
			body = And(append(guards, body)...)
		} else {
			body = Implies(And(guards...), body)
		}
		if len(x.Triggers) > 0 {
			var pats []string
			for _, te := range x.Triggers {
				pt := c.asTerm(c.translate(n, te)).S
				if call, ok := te.(*ECall); ok && call.Fn == "in" && strings.HasPrefix(pt, "(and ") {
					// in(m, k) is "m != nil && dom(m)[k]": only the membership term can serve as a pattern
					if i := strings.Index(pt, "(select (select "); i > 0 {
						pt = strings.TrimSuffix(pt[i:], ")")
					}
				}
				pats = append(pats, pt)
			}
			return T(SBool, fmt.Sprintf("(%s (%s) (! %s :pattern (%s)))", q, strings.Join(binders, " "), body.S, strings.Join(pats, " ")))
		}
		return T(SBool, fmt.Sprintf("(%s (%s) %s)", q, strings.Join(binders, " "), body.S))
	}
	unsup("contract expression %T", e)
	return nil
}

func (c *VCtx) indexVal(sc *Scope, base Val, idx *Term) Val {
	st := sc.state()
	switch b := base.(type) {
	case *Term:
		switch {
		case b.Sort == SSlice:
			var es Sort = SInt
			var et types.Type
			if b.GT != nil {
				et = b.GT.Underlying().(*types.Slice).Elem()
				es = sortOf(et)
			}
			h := c.heap(st, elemHeapName(es), ArrSort(SRef, ArrSort(SInt, es)))
			r := Select(Select(h, SlArr(b)), SIdx(b, idx))
			r.GT = et
			if et != nil {
				return c.typed(r, et)
			}
			return r
		case b.Sort == SStr:
			return Select(StrData(b), idx)
		case strings.HasPrefix(string(b.Sort), "(Array"):
			return Select(b, idx)
		case b.Sort == SRef && b.GT != nil:
			if mt, ok := b.GT.Underlying().(*types.Map); ok {
				_, vn, _ := mapHeapNames(mt)
				val := c.heap(st, vn, ArrSort(SRef, ArrSort(sortOf(mt.Key()), sortOf(mt.Elem()))))
				r := Select(Select(val, b), idx)
				r.GT = mt.Elem()
				return c.typed(r, mt.Elem())
			}
		}
	case *Loc:
		if b.Kind == "arr" {
			at := b.GT.Underlying().(*types.Array)
			es := sortOf(at.Elem())
			h := c.heap(st, elemHeapName(es), ArrSort(SRef, ArrSort(SInt, es)))
			return Select(Select(h, b.Base), idx)
		}
	}
	unsup("cannot index %v in contract", base)
	return nil
}

func (c *VCtx) translateBinary(sc *Scope, x *EBinary) Val {
	switch x.Op {
	case "&&":
		return And(c.translateBool(sc, x.X), c.translateBool(sc, x.Y))
	case "||":
		return Or(c.translateBool(sc, x.X), c.translateBool(sc, x.Y))
	case "==>":
		return Implies(c.translateBool(sc, x.X), c.translateBool(sc, x.Y))
	case "<==>":
		return Eq(c.translateBool(sc, x.X), c.translateBool(sc, x.Y))
	}
	a := c.asTerm(c.translate(sc, x.X))
	b := c.asTerm(c.translate(sc, x.Y))
	switch x.Op {
	case "==", "!=":
		var eq *Term
		if a.Sort != b.Sort {
			// nil against slice
			if a.Sort == SSlice && b.S == "null" {
				eq = Eq(SlArr(a), Null)
			} else if b.Sort == SSlice && a.S == "null" {
				eq = Eq(SlArr(b), Null)
			} else {
				unsup("comparison of %s with %s in contract (%s vs %s)", a.Sort, b.Sort, a.S, b.S)
			}
		} else if a.Sort == SStr {
			eq = c.strEq(a, b)
		} else {
			eq = Eq(a, b)
		}
		if x.Op == "!=" {
			return Not(eq)
		}
		return eq
	case "<":
		return Lt(a, b)
	case "<=":
		return Le(a, b)
	case ">":
		return Gt(a, b)
	case ">=":
		return Ge(a, b)
	case "+":
		return Add(a, b)
	case "-":
		return Sub(a, b)
	case "*":
		return Mul(a, b)
	case "/":
		return T(SInt, app("div", a, b))
	case "%":
		return T(SInt, app("mod", a, b))
	}
	unsup("operator %s", x.Op)
	return nil
}

func (c *VCtx) translateField(sc *Scope, x *EField) Val {
	// package-qualified global: pkg.Name
	if id, ok := x.X.(*EIdent); ok {
		if _, found := sc.lookup(id.Name); !found {
			for path, p := range c.eng.TPkgs {
				if p.Name == id.Name {
					if sp := c.eng.SPkgs[path]; sp != nil {
						if gl, ok := sp.Members[x.F].(*ssa.Global); ok {
							return c.globalVal(gl)
						}
					}
				}
			}
		}
	}
	base := c.translate(sc, x.X)
	bt, ok := base.(*Term)
	if !ok {
		unsup("field %s of non-term", x.F)
	}
	if bt.GT == nil {
		unsup("field %s of value without Go type (%s)", x.F, bt.S)
	}
	stT := bt.GT
	if p, ok := stT.Underlying().(*types.Pointer); ok {
		stT = p.Elem()
	}
	stt, ok := stT.Underlying().(*types.Struct)
	if !ok {
		unsup("field %s of non-struct %s", x.F, stT)
	}
	for i := 0; i < stt.NumFields(); i++ {
		f := stt.Field(i)
		if f.Name() == x.F {
			p := c.fieldAddr(bt, stT, f)
			if l, ok := p.(*Loc); ok && l.Kind == "field" {
				h := c.heap(sc.state(), l.Heap, ArrSort(SRef, l.Sort))
				r := Select(h, l.Base)
				r.GT = l.GT
				if !strings.Contains(r.S, "q!") && (l.Sort == SInt || l.Sort == SSlice) {
					// type invariant of the stored value (only for closed terms)
					c.typeFacts(r, l.GT)
				}
				return c.typed(r, l.GT)
			}
			return p // embedded struct address / array location
		}
	}
	// ghost field
	if name, sort := c.ghostFieldHeap(stT, x.F); name != "" {
		h := c.heap(sc.state(), name, sort)
		return Select(h, bt)
	}
	unsup("no field %s in %s", x.F, stT)
	return nil
}

func (c *VCtx) specFunc(pkg, name string) *SpecFunc {
	if ps := c.eng.Specs[pkg]; ps != nil {
		if sf := ps.Specs[name]; sf != nil {
			return sf
		}
	}
	return nil
}

func (c *VCtx) applySpec(sc *Scope, sf *SpecFunc, args []*Term) *Term {
	fname := sym("spec!" + shortPkg(sc.pkg) + "." + sf.Name)
	if !c.declSet["specfn:"+fname] {
		c.declSet["specfn:"+fname] = true
		var ps []string
		n := &Scope{c: c, vars: map[string]Val{}, pkg: sc.pkg, pure: true, st: &State{heaps: map[string]*Term{}, pc: True}}
		var sorts []Sort
		for _, p := range sf.Params {
			s, gt := c.specSort(sc, p.Type)
			sorts = append(sorts, s)
			ps = append(ps, fmt.Sprintf("(%s %s)", sym("a!"+p.Name), s))
			n.vars[p.Name] = TG(s, gt, sym("a!"+p.Name))
		}
		rs, _ := c.specSort(sc, sf.Ret)
		if sf.Body != nil {
			body := c.asTerm(c.translate(n, sf.Body))
			c.decls = append(c.decls, fmt.Sprintf("(define-fun %s (%s) %s %s)", fname, strings.Join(ps, " "), rs, body.S))
		} else {
			c.declSet[fname] = true
			var as []string
			for _, s := range sorts {
				as = append(as, string(s))
			}
			c.decls = append(c.decls, fmt.Sprintf("(declare-fun %s (%s) %s)", fname, strings.Join(as, " "), rs))
		}
	}
	rs, _ := c.specSort(sc, sf.Ret)
	if len(args) == 0 {
		return T(rs, fname)
	}
	return T(rs, app(fname, args...))
}

func (c *VCtx) translateCall(sc *Scope, x *ECall) Val {
	arg := func(i int) *Term { return c.asTerm(c.translate(sc, x.Args[i])) }
	st := sc.state()
	switch x.Fn {
	case "len":
		v := c.translate(sc, x.Args[0])
		if l, ok := v.(*Loc); ok && l.Kind == "arr" {
			return IntLit(l.GT.Underlying().(*types.Array).Len())
		}
		t := c.asTerm(v)
		switch {
		case t.Sort == SSlice:
			return SlLen(t)
		case t.Sort == SStr:
			return StrLen(t)
		case t.Sort == SRef && t.GT != nil:
			if mt, ok := t.GT.Underlying().(*types.Map); ok {
				_, _, cn := mapHeapNames(mt)
				card := c.heap(st, cn, ArrSort(SRef, SInt))
				return Ite(Eq(t, Null), IntLit(0), Select(card, t))
			}
		}
		unsup("len of %s", t.Sort)
	case "cap":
		return SlCap(arg(0))
	case "arr":
		if l, ok := c.translate(sc, x.Args[0]).(*Loc); ok && l.Kind == "arr" {
			return l.Base
		}
		return SlArr(arg(0))
	case "off":
		return SlOff(arg(0))
	case "ite":
		return Ite(arg(0), arg(1), arg(2))
	case "closed":
		return c.isClosed(st, arg(0))
	case "cancelled":
		return c.isClosed(st, c.ctxDone(arg(0)))
	case "done":
		return c.ctxDone(arg(0))
	case "calls":
		h := c.heap(st, "G:calls", ArrSort(SRef, SInt))
		return Select(h, arg(0))
	case "elemat":
		// elemat(s, k): element at absolute position k of the backing array of slice s
		b := arg(0)
		var es Sort = SInt
		var et types.Type
		if b.GT != nil {
			et = b.GT.Underlying().(*types.Slice).Elem()
			es = sortOf(et)
		}
		h := c.heap(st, elemHeapName(es), ArrSort(SRef, ArrSort(SInt, es)))
		r := Select(Select(h, SlArr(b)), arg(1))
		r.GT = et
		if et != nil {
			return c.typed(r, et)
		}
		return r
	case "zero":
		return T(SAny, "zero_Any")
	case "objinv":
		// objinv(x): the conjunction of the declared monitor invariants of x's type, instantiated at x
		a := arg(0)
		if a.GT == nil {
			unsup("objinv of untyped value")
		}
		sp := c.objectSpec(a.GT)
		if sp == nil {
			unsup("objinv: no object spec for %s", a.GT)
		}
		var parts []*Term
		for _, inv := range sp.Invs {
			n := &Scope{c: c, vars: map[string]Val{"this": a}, st: sc.st, old: sc.old, pkg: sp.Pkg, inOld: sc.inOld}
			if c.me != nil {
				n.vars["me"] = c.me
			}
			parts = append(parts, c.translateBool(n, inv.E))
		}
		return And(parts...)
	case "csold":
		// csold(e): e in the state right after this invocation's most recent lock acquisition
		// (frame-relative: the critical section entered by the function the clause belongs to, or by its nearest caller)
		entry := c.lastCSEntry
		for f := sc.fr; f != nil; f = f.parent {
			if f.csEntry != nil {
				entry = f.csEntry
				break
			}
		}
		if entry == nil {
			unsup("csold used but no critical section has been entered")
		}
		n := *sc
		n.st, n.inOld = entry, false
		return c.translate(&n, x.Args[0])
	case "card":
		return T(SInt, app("card", arg(0)))
	case "fin":
		return T(SBool, app("fin", arg(0)))
	case "empty":
		return T(ArrSort(SRef, SBool), "emptyset")
	case "add":
		return Store(arg(0), arg(1), True)
	case "del":
		return Store(arg(0), arg(1), False)
	case "written":
		// written(x.f): this invocation has written field f of object x (thread-local ghost count > 0)
		fe, ok := x.Args[0].(*EField)
		if !ok {
			unsup("written needs a field expression")
		}
		base := c.asTerm(c.translate(sc, fe.X))
		if base.GT == nil {
			unsup("written: untyped object")
		}
		hn := "G:writes:" + fieldHeapName(deref0(base.GT), fe.F)
		h := c.heap(st, hn, ArrSort(SRef, SInt))
		return Gt(Select(h, base), IntLit(0))
	case "lastcs":
		// abstract time at which this invocation last left a critical section
		if t, ok := st.heaps["G:lastcs"]; ok {
			return t
		}
		c.heapSorts["G:lastcs"] = SInt
		return c.declare(c.heapName("G:lastcs", st.epoch), SInt)
	case "aint":
		// aint(c): value of the atomic.Int32 / Int64 cell c (kind given by the Go type of c, default Int32)
		a := arg(0)
		tn := "Int32"
		if a.GT != nil {
			if n, ok := deref0(a.GT).(*types.Named); ok {
				tn = n.Obj().Name()
			}
		}
		h := c.heap(st, "F:sync/atomic."+tn+".v", ArrSort(SRef, SInt))
		return Select(h, a)
	case "abool":
		h := c.heap(st, "F:sync/atomic.Bool.v", ArrSort(SRef, SInt))
		return Not(Eq(Select(h, arg(0)), IntLit(0)))
	case "madein":
		// madein(ch, "Func"): the channel was created by a make(chan) in the function with that contract key
		lit, ok := x.Args[1].(*EStr)
		if !ok {
			unsup("madein needs a string literal naming the function")
		}
		return Eq(c.chanSite(arg(0)), IntLit(siteID(lit.V)))
	case "resolved":
		return c.isResolved(st, arg(0))
	case "reserr":
		return c.resErr(arg(0))
	case "resval":
		return c.resVal(arg(0), SAny)
	case "visited":
		// visited(key): the map range loop most recently entered by this function has already produced key
		if sc.fr == nil || sc.fr.lastIter == nil {
			unsup("visited() outside a range-over-map loop")
		}
		kv := arg(0)
		h := c.heap(st, "G:visited:"+string(kv.Sort), ArrSort(SRef, ArrSort(kv.Sort, SBool)))
		return Select(Select(h, sc.fr.lastIter), kv)
	case "cellany":
		h := c.heap(st, cellHeapName(SAny), ArrSort(SRef, SAny))
		return Select(h, arg(0))
	case "cellval":
		// cellval(p): the reference stored in the variable that p points to
		h := c.heap(st, cellHeapName(SRef), ArrSort(SRef, SRef))
		return Select(h, arg(0))
	case "aptr":
		h := c.heap(st, "F:sync/atomic.Pointer.v", ArrSort(SRef, SRef))
		return Select(h, arg(0))
	case "selects":
		// selects(ch): the select statement at this assertion point has a receive case on ch
		var alts []*Term
		for _, ch := range c.curSelectChans {
			alts = append(alts, Eq(ch, arg(0)))
		}
		return Or(alts...)
	case "now":
		return c.now(st)
	case "calltime":
		h := c.heap(st, "G:calltime", ArrSort(SRef, SInt))
		return Select(h, arg(0))
	case "recvs":
		// recvs(ch): number of values this invocation received from channel ch (incl. the closed-channel zero value)
		h := c.heap(st, "G:recvs", ArrSort(SRef, SInt))
		return Select(h, arg(0))
	case "lastarg":
		f := arg(0)
		iv, ok := x.Args[1].(*EInt)
		if !ok {
			unsup("lastarg needs a literal index")
		}
		var rs Sort = SRef
		if f.GT != nil {
			if sig, ok := f.GT.Underlying().(*types.Signature); ok {
				var k int
				fmt.Sscanf(iv.V, "%d", &k)
				if k < sig.Params().Len() {
					rs = sortOf(sig.Params().At(k).Type())
				}
			}
		}
		hn := fmt.Sprintf("G:lastarg:%s:%s", iv.V, rs)
		h := c.heap(st, hn, ArrSort(SRef, rs))
		return Select(h, f)
	case "lastret":
		// lastret(f, i): i-th result of the most recent call of the opaque function value f
		f := arg(0)
		iv, ok := x.Args[1].(*EInt)
		if !ok {
			unsup("lastret needs a literal index")
		}
		var rs Sort = SRef
		if f.GT != nil {
			if sig, ok := f.GT.Underlying().(*types.Signature); ok {
				var k int
				fmt.Sscanf(iv.V, "%d", &k)
				if k < sig.Results().Len() {
					rs = sortOf(sig.Results().At(k).Type())
				}
			}
		}
		hn := fmt.Sprintf("G:lastret:%s:%s", iv.V, rs)
		h := c.heap(st, hn, ArrSort(SRef, rs))
		return Select(h, f)
	case "spawned":
		// spawned(f): number of goroutines started with function f (by contract key)
		id, ok := x.Args[0].(*EIdent)
		if !ok {
			unsup("spawned needs a function name")
		}
		h := c.heap(st, "G:calls", ArrSort(SRef, SInt))
		return Select(h, c.fnID(id.Name))
	case "datalen":
		return c.dataLen(arg(0))
	case "ginvs":
		// ginvs(): the global invariants of the package, in the current state (for loop invariants)
		var parts []*Term
		for _, g := range c.globalClauses() {
			if !g.trans && g.pkg == sc.pkg {
				parts = append(parts, c.translateBool(c.globalScope(g.pkg, st, nil), g.cl.E))
			}
		}
		return And(parts...)
	case "ctxparent":
		// ctxparent(c): the context c was derived from (context.WithCancel)
		return c.ctxParent(arg(0))
	case "cancelOf":
		return c.cancelOf(arg(0))
	case "srccnt":
		h := c.heap(st, "G:srccnt", ArrSort(SRef, SInt))
		return Select(h, arg(0))
	case "U":
		fn := c.declareFun("U", []Sort{SRef, SInt}, SInt)
		return T(SInt, fmt.Sprintf("(%s %s %s)", fn, arg(0).S, arg(1).S))
	case "allocated":
		return Select(c.allocHeap(st), arg(0))
	case "cell":
		// cell(x): the address of the captured / local variable x (its name alone denotes the content)
		id, ok := x.Args[0].(*EIdent)
		if !ok {
			unsup("cell() needs a variable name")
		}
		if l, ok := sc.vars[id.Name].(*Loc); ok && l.Base != nil {
			return l.Base
		}
		for f := sc.fr; f != nil; f = f.parent {
			for _, fv := range f.fn.FreeVars {
				if fv.Name() == id.Name {
					if l, ok := f.env[fv].(*Loc); ok && l.Base != nil {
						return l.Base
					}
				}
			}
			for _, blk := range f.fn.Blocks {
				for _, in := range blk.Instrs {
					if a, ok := in.(*ssa.Alloc); ok && a.Comment == id.Name {
						if l, ok := f.env[a].(*Loc); ok && l.Base != nil {
							return l.Base
						}
					}
				}
			}
		}
		unsup("cell(%s): no such variable cell", id.Name)
	case "cur":
		// cur(e) inside old(...): e is evaluated in the current state (e.g. old(pub(cur(x.top))))
		n := *sc
		n.inOld = false
		return c.translate(&n, x.Args[0])
	case "fresh":
		// fresh(e): the current value of e did not exist in the old state (two-state clauses)
		if sc.old == nil {
			unsup("fresh() needs a two-state context")
		}
		return Not(Select(c.allocHeap(sc.old), arg(0)))
	case "in":
		// in(m, k): key k in domain of Go map m; or set membership for Array K Bool
		m := arg(0)
		k := arg(1)
		if m.Sort == SRef && m.GT != nil {
			if mt, ok := m.GT.Underlying().(*types.Map); ok {
				dn, _, _ := mapHeapNames(mt)
				dom := c.heap(st, dn, ArrSort(SRef, ArrSort(sortOf(mt.Key()), SBool)))
				return And(Not(Eq(m, Null)), Select(Select(dom, m), k))
			}
		}
		if strings.HasPrefix(string(m.Sort), "(Array") {
			return Select(m, k)
		}
		unsup("in() on %s", m.Sort)
	case "trig":
		// trig(x): an uninterpreted predicate used only to control quantifier instantiation
		a := arg(0)
		fn := c.declareFun("trig!"+string(a.Sort), []Sort{a.Sort}, SBool)
		return T(SBool, fmt.Sprintf("(%s %s)", fn, a.S))
	case "same":
		return Eq(arg(0), arg(1))
	case "hasprefix":
		return c.hasPrefix(arg(0), arg(1))
	case "held":
		// held(lockowner): the monitor lock of the object is held by this thread (meta-level)
		t := arg(0)
		for _, h := range sc.st.held {
			if h.obj.S == t.S {
				return True
			}
		}
		for k := range sc.st.held {
			if k == t.S {
				return True
			}
		}
		return False
	case "store":
		return Store(arg(0), arg(1), arg(2))
	case "select":
		return Select(arg(0), arg(1))
	case "heap":
		// heap("name") gives raw access to a ghost heap
		unsup("heap() not supported")
	case "hstate":
		h := c.heap(st, "G:hstate", ArrSort(SRef, SInt))
		return Select(h, arg(0))
	case "heapid":
		// an abstract identifier of the current contents of all byte slices and slices of slices
		hb := c.heap(st, elemHeapName(SInt), ArrSort(SRef, ArrSort(SInt, SInt)))
		hs := c.heap(st, elemHeapName(SSlice), ArrSort(SRef, ArrSort(SInt, SSlice)))
		fn := c.declareFun("hid", []Sort{hb.Sort, hs.Sort}, SInt)
		return T(SInt, fmt.Sprintf("(%s %s %s)", fn, hb.S, hs.S))
	case "hinit":
		return c.declare("hinit", SInt)
	case "absorb":
		fn := c.declareFun("absorb", []Sort{SInt, SInt}, SInt)
		return T(SInt, fmt.Sprintf("(%s %s %s)", fn, arg(0).S, arg(1).S))
	case "canon":
		// canon(slice of bytes): abstract value of the byte sequence
		a := arg(0)
		if a.Sort == SStr {
			return c.canon(StrData(a), IntLit(0), StrLen(a))
		}
		h := c.heap(st, elemHeapName(SInt), ArrSort(SRef, ArrSort(SInt, SInt)))
		return c.canon(Select(h, SlArr(a)), SlOff(a), SlLen(a))
	case "digest":
		fn := c.declareFun("digest", []Sort{SInt}, ArrSort(SInt, SInt))
		return T(ArrSort(SInt, SInt), fmt.Sprintf("(%s %s)", fn, arg(0).S))
	case "srcseed":
		fn := c.declareFun("srcseed", []Sort{SRef}, ArrSort(SInt, SInt))
		return T(ArrSort(SInt, SInt), fmt.Sprintf("(%s %s)", fn, arg(0).S))
	case "digestlen":
		return T(SInt, c.declareFun("digestlen", nil, SInt))
	case "cast":
		// cast(x, T): view an interface value as *T (no check; use together with a dynamic-type fact)
		id, ok := x.Args[1].(*EIdent)
		if !ok {
			unsup("cast needs a type name")
		}
		_, gt := c.specSort(sc, "*"+id.Name)
		return c.typed(TG(SRef, gt, arg(0).S), gt)
	case "shr":
		return T(SInt, app("shr", arg(0), arg(1)))
	case "pow2":
		return T(SInt, app("pow2", arg(0)))
	}
	if sf := c.specFunc(sc.pkg, x.Fn); sf != nil {
		var args []*Term
		for i := range x.Args {
			args = append(args, arg(i))
		}
		return c.applySpec(sc, sf, args)
	}
	if v, ok := c.ghostCall(sc, x); ok {
		return v
	}
	unsup("unknown function %s in contract", x.Fn)
	return nil
}

func (c *VCtx) ctxDone(ctx *Term) *Term {
	fn := c.declareFun("ctxdone", []Sort{SRef}, SRef)
	if !c.declSet["ax:ctxdone"] {
		c.declSet["ax:ctxdone"] = true
		c.facts0(T(SBool, fmt.Sprintf("(forall ((x Ref)) (! (not (= (%s x) null)) :pattern ((%s x))))", fn, fn)))
	}
	return T(SRef, fmt.Sprintf("(%s %s)", fn, ctx.S))
}

func (c *VCtx) canon(data, off, ln *Term) *Term {
	fn := c.declareFun("canon", []Sort{ArrSort(SInt, SInt), SInt, SInt}, SInt)
	return T(SInt, fmt.Sprintf("(%s %s %s %s)", fn, data.S, off.S, ln.S))
}

func deref0(t types.Type) types.Type {
	if p, ok := t.Underlying().(*types.Pointer); ok {
		return p.Elem()
	}
	return t
}
