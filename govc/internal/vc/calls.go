package vc

import (
	"go/token"
	"sync"
	"sort"
	"fmt"
	"go/types"
	"strings"

	"golang.org/x/tools/go/ssa"
)

// model is a built-in (trusted) contract for a std-lib or third-party function.
type model struct {
	name string
	mods func(c *VCtx, cc *ssa.CallCommon) map[string]Sort
	run  func(c *VCtx, fr *Frame, st *State, cc *ssa.CallCommon, args []Val, res types.Type) Val
}

func noMods(c *VCtx, cc *ssa.CallCommon) map[string]Sort { return map[string]Sort{} }

var staticModels = map[string]*model{}
var invokeModels = map[string]*model{}

func (c *VCtx) staticModel(fn *ssa.Function) *model {
	name := fn.String()
	if o := fn.Origin(); o != nil {
		name = o.String()
	}
	if m := staticModels[name]; m != nil {
		return m
	}
	return nil
}

func invokeKey(cc *ssa.CallCommon) string {
	recv := cc.Value.Type()
	return types.TypeString(recv, nil) + "." + cc.Method.Name()
}

func (c *VCtx) invokeModel(cc *ssa.CallCommon) *model {
	if m := invokeModels[invokeKey(cc)]; m != nil {
		return m
	}
	// instantiated generic interface: drop the type arguments
	if k := invokeKey(cc); strings.Contains(k, "[") {
		recv := types.TypeString(cc.Value.Type(), nil)
		if i := strings.Index(recv, "["); i > 0 {
			if m := invokeModels[recv[:i]+"."+cc.Method.Name()]; m != nil {
				return m
			}
		}
	}
	// by method name on any interface embedding the same method (e.g. io.ReadCloser.Read)
	if m := invokeModels["*."+cc.Method.Name()+":"+types.TypeString(cc.Method.Type(), nil)]; m != nil {
		return m
	}
	return nil
}

func resultType(cc *ssa.CallCommon) types.Type {
	sig := cc.Signature()
	switch sig.Results().Len() {
	case 0:
		return nil
	case 1:
		return sig.Results().At(0).Type()
	}
	return sig.Results()
}

// call executes a call instruction. mode is "call", "go" or "defer".
func (c *VCtx) call(fr *Frame, st *State, cc *ssa.CallCommon, instr *ssa.Call, mode string) Val {
	rt := resultType(cc)
	// builtins
	if b, ok := cc.Value.(*ssa.Builtin); ok {
		return c.builtin(fr, st, b, cc, instr)
	}
	var args []Val
	for _, a := range cc.Args {
		args = append(args, fr.eval(a))
	}
	if cc.IsInvoke() {
		recv := fr.eval(cc.Value)
		if m := c.invokeModel(cc); m != nil {
			c.eng.assume("assumed contract: " + m.name)
			res := m.run(c, fr, st, cc, append([]Val{recv}, args...), rt)
			if fr.contract != nil && len(fr.contract.Ghost) > 0 && mode != "go" {
				// ghost statements right after a modelled call through an interface: "invoke <Method>", ret = its result
				extra := map[string]Val{}
				if res != nil {
					if tup, isTup := res.(Tuple); isTup {
						for i, r := range tup {
							extra[fmt.Sprintf("ret%d", i)] = r
						}
					} else {
						extra["ret"] = res
					}
				}
				c.runGhost(fr, st, fr.contract, "invoke "+cc.Method.Name(), extra)
			}
			return res
		}
		if mode == "go" {
			return nil
		}
		if rt0, ok := recv.(*Term); ok && rt0.Sort == SRef {
			c.safety(fr, st, "nilderef", Not(Eq(rt0, Null)), cc.Pos())
			c.bumpCalls(st, rt0)
		}
		res := c.externalCall(fr, st, cc, invokeKey(cc), append([]Val{recv}, args...), rt)
		if fr.contract != nil {
			// ghost statements right after a call through an interface: "invoke <Method>", ret = its result
			extra := map[string]Val{}
			if res != nil {
				if tup, isTup := res.(Tuple); isTup {
					for i, r := range tup {
						extra[fmt.Sprintf("ret%d", i)] = r
					}
				} else {
					extra["ret"] = res
				}
			}
			c.runGhost(fr, st, fr.contract, "invoke "+cc.Method.Name(), extra)
		}
		return res
	}
	var fv *FnVal
	if callee := cc.StaticCallee(); callee != nil {
		fv = &FnVal{Fn: callee}
		if mc, ok := cc.Value.(*ssa.MakeClosure); ok {
			fv = fr.eval(mc).(*FnVal)
		}
	} else {
		v := fr.eval(cc.Value)
		switch x := v.(type) {
		case *FnVal:
			fv = x
		case *Term:
			if f := c.fnOfTerm(x); f != nil {
				fv = f
			} else {
				if mode == "go" {
					c.safety(fr, st, "nilfunc", Not(Eq(x, Null)), cc.Pos())
					return nil
				}
				return c.callbackCall(fr, st, cc, x, args, rt)
			}
		default:
			unsup("call of %T value", v)
		}
	}
	if (mode == "call" || mode == "defer") && fr.contract != nil && fr.contract.Asserts != nil && fv != nil && fv.Fn != nil {
		// assertions right before a static call: "call <function key>", arg0, arg1, ... = its arguments (receiver first)
		pt := "call " + strings.SplitN(bareName(FuncKey(fv.Fn)), "[", 2)[0]
		if len(fr.contract.Asserts[pt]) > 0 {
			saved := c.assertExtra
			c.assertExtra = map[string]Val{}
			for i, a := range args {
				c.assertExtra[fmt.Sprintf("arg%d", i)] = a
			}
			c.pointAsserts(fr, st, pt, cc.Pos())
			c.assertExtra = saved
		}
	}
	res := c.callFn(fr, st, cc, fv, args, rt, mode)
	if mode == "call" && fr.contract != nil && fv != nil && fv.Fn != nil {
		// ghost statements right after a static call: "aftercall <function key>", ret = its result
		pt := "aftercall " + strings.SplitN(bareName(FuncKey(fv.Fn)), "[", 2)[0]
		for _, g := range fr.contract.Ghost {
			if g.At == pt {
				extra := map[string]Val{}
				if res != nil {
					if tup, isTup := res.(Tuple); isTup {
						for i, r := range tup {
							extra[fmt.Sprintf("ret%d", i)] = r
						}
					} else {
						extra["ret"] = res
					}
				}
				c.runGhost(fr, st, fr.contract, pt, extra)
				break
			}
		}
	}
	return res
}

func (c *VCtx) callFn(fr *Frame, st *State, cc *ssa.CallCommon, fv *FnVal, args []Val, rt types.Type, mode string) Val {
	callee := fv.Fn
	if m := c.staticModel(callee); m != nil {
		c.eng.assume("assumed contract: " + m.name)
		if mode == "go" {
			unsup("go of modelled function %s", callee)
		}
		return m.run(c, fr, st, cc, args, rt)
	}
	if mode == "go" {
		c.spawn(fr, st, cc, fv, args)
		return nil
	}
	ct := c.eng.ContractOf(callee)
	if ct != nil && !ct.Inline && c.contract != nil && strings.Contains(" "+c.contract.Opts["inline-calls"]+" ", " "+strings.SplitN(bareName(FuncKey(callee)), "[", 2)[0]+" ") && callee != c.top {
		// the function under verification asks for this helper's body instead of its contract (it calls it in a
		// state in which the helper's entry assumptions do not hold yet)
		cp := *ct
		cp.Inline = true
		ct = &cp
	}
	if ct != nil && ct.Opts["holds"] != "" && callee.Signature.Recv() != nil && callee != c.top && len(args) > 0 {
		// a ...Locked helper: the caller must be inside a critical section of the lock the helper relies on
		if recv, ok := args[0].(*Term); ok && recv.Sort == SRef {
			lock := c.lockByPath(st, recv, deref(callee.Params[0].Type()), ct.Opts["holds"])
			_, held := st.held[lock.S]
			name := "call.holds." + FuncKey(callee)
			desc := "call of " + FuncKey(callee) + " at " + c.eng.pos(cc.Pos()) + " happens while the lock it relies on (" + ct.Opts["holds"] + ") is held"
			switch {
			case held:
				c.staticObl(name, desc, true, "")
			case len(st.held) == 0:
				c.staticObl(name, desc, false, "the helper expects "+ct.Opts["holds"]+" of its receiver to be held; no lock is held here")
			default:
				// not syntactically the same lock: it must be provably one of the locks held
				var alts []*Term
				for _, h := range st.held {
					alts = append(alts, Eq(lock, h.obj))
				}
				c.prove(name, desc, st.pc, Or(alts...), nil)
			}
			c.obls[len(c.obls)-1].Props = c.ownProps()
			// the helper assumes the monitor invariants on entry: they must hold at the call
			// (except those it declares it can start without: opt breaks = I1 I2)
			breaks := " " + ct.Opts["breaks"] + " " + ct.Opts["leaves"] + " "
			for _, h := range st.held {
				if ct.Inline {
					break // the body is executed in the caller's state: nothing is assumed on its behalf
				}
				for _, m := range h.specs {
					// only the receiver's own monitor (and monitors embedded in it): that is what the helper assumes
					c.curState = st
					cond := c.monitorIsReceivers(m, recv, callee)
					if cond == nil {
						continue
					}
					sc := c.objScope(m, st, m.entry)
					for i, inv := range m.spec.Invs {
						if strings.Contains(breaks, " "+inv.Label+" ") {
							continue
						}
						g := Implies(cond, c.translateBool(sc, inv.E))
						c.proveOnly(inv.Props, clauseProps(inv, m.spec.Props), fmt.Sprintf("call.inv.%s.%s.%s", bareName(FuncKey(callee)), m.spec.Type, clauseLabel(inv, i)),
							fmt.Sprintf("object invariant of %s holds when the helper %s is called (%s): %s", m.spec.Type, FuncKey(callee), c.eng.pos(cc.Pos()), inv.Src), st.pc, g)
					}
				}
			}
		}
	}
	if ct != nil && !ct.Inline && callee != c.top {
		return c.applyContract(fr, st, cc, ct, callee, fv, args, rt)
	}
	if ct != nil && callee == c.top && !ct.Inline {
		// recursion: use the contract
		return c.applyContract(fr, st, cc, ct, callee, fv, args, rt)
	}
	inRepo := strings.HasPrefix(fnPkgPath(callee), ModPath)
	if len(callee.Blocks) > 0 && (inRepo || callee.Parent() != nil || callee.Synthetic != "") {
		// synthetic wrappers of external functions are not inlined
		if callee.Synthetic != "" && !inRepo {
			return c.externalCall(fr, st, cc, callee.String(), args, rt)
		}
		return c.inline(fr, st, fv, args)
	}
	return c.externalCall(fr, st, cc, callee.String(), args, rt)
}

// inline executes the callee's body in place.
func (c *VCtx) inline(fr *Frame, st *State, fv *FnVal, args []Val) Val {
	nf := c.newFrame(fv.Fn, fr)
	if len(args) != len(fv.Fn.Params) {
		unsup("arity mismatch inlining %s", fv.Fn)
	}
	for i, p := range fv.Fn.Params {
		nf.env[p] = c.typed(args[i], p.Type())
	}
	if len(fv.Binds) != len(fv.Fn.FreeVars) {
		unsup("closure %s called without bindings", fv.Fn)
	}
	for i, f := range fv.Fn.FreeVars {
		nf.env[f] = fv.Binds[i]
	}
	nf.args = args
	out, res := c.execFunction(nf, st.clone())
	*st = *out
	return res
}

// externalCall: unknown callee; result unconstrained, may write through slice arguments.
func (c *VCtx) externalCall(fr *Frame, st *State, cc *ssa.CallCommon, name string, args []Val, rt types.Type) Val {
	c.eng.Externals[name] = true
	for _, a := range args {
		c.publish(a)
	}
	for h := range c.externalMods(cc) {
		c.havocHeap(st, h)
	}
	if rt == nil {
		return nil
	}
	v := c.freshVal("ext", rt)
	c.knownAll(st, v)
	return v
}

func (c *VCtx) knownAll(st *State, v Val) {
	if tup, ok := v.(Tuple); ok {
		for _, x := range tup {
			c.knownAll(st, x)
		}
		return
	}
	c.known(st, v)
}

// callbackCall: call of a function value that is not statically known (user callback).
// ownClosureBehind: the called value is (the content of) a captured variable that, where the closure was
// created, holds one of this package's own closures - not a user callback.
func ownClosureBehind(fn *ssa.Function, v ssa.Value) (string, *ssa.Function) {
	if u, ok := v.(*ssa.UnOp); ok && u.Op == token.MUL {
		v = u.X
	}
	fvar, ok := v.(*ssa.FreeVar)
	if !ok || fn.Parent() == nil {
		return "", nil
	}
	idx := -1
	for i, f := range fn.FreeVars {
		if f == fvar {
			idx = i
		}
	}
	for _, b := range fn.Parent().Blocks {
		for _, in := range b.Instrs {
			mc, ok := in.(*ssa.MakeClosure)
			if !ok || mc.Fn != fn || idx < 0 || idx >= len(mc.Bindings) {
				continue
			}
			switch bv := mc.Bindings[idx].(type) {
			case *ssa.MakeClosure:
				return fvar.Name(), bv.Fn.(*ssa.Function)
			case *ssa.Alloc:
				for _, r := range *bv.Referrers() {
					if s, ok := r.(*ssa.Store); ok && s.Addr == bv {
						if m2, ok := s.Val.(*ssa.MakeClosure); ok {
							return fvar.Name(), m2.Fn.(*ssa.Function)
						}
					}
				}
			case *ssa.FreeVar:
				// captured from a frame further out
				if n, g := ownClosureBehind(fn.Parent(), bv); g != nil {
					return n, g
				}
			}
		}
	}
	return "", nil
}

func (c *VCtx) callbackCall(fr *Frame, st *State, cc *ssa.CallCommon, f *Term, args []Val, rt types.Type) Val {
	if n, g := ownClosureBehind(fr.fn, cc.Value); g != nil {
		unsup("call through the captured variable %s, which holds the package's own closure %s, not a user callback: declare 'bind %s = %s'", n, FuncKey(g), n, FuncKey(g))
	}
	c.safety(fr, st, "nilfunc", Not(Eq(f, Null)), cc.Pos())
	for _, a := range args {
		c.publish(a)
	}
	c.eng.assume("user callbacks do not re-enter the object that calls them and do not touch library-internal state")
	c.noteCallback(fr, st, f, args)
	c.bumpCalls(st, f)
	for i, a := range args {
		if t, ok := a.(*Term); ok {
			hn := fmt.Sprintf("G:lastarg:%d:%s", i, t.Sort)
			h := c.heap(st, hn, ArrSort(SRef, t.Sort))
			c.setHeap(st, hn, Store(h, f, t))
		}
	}
	fr.callbacks++
	c.pointAsserts(fr, st, fmt.Sprintf("callback %d", fr.callbacks), cc.Pos())
	if u, ok := cc.Value.(*ssa.UnOp); ok {
		if fa, ok := u.X.(*ssa.FieldAddr); ok {
			// "callback <field>": a call of the function stored in that field (independent of call order)
			stT := deref(fa.X.Type())
			if stt, ok := stT.Underlying().(*types.Struct); ok {
				c.pointAsserts(fr, st, "callback "+stt.Field(fa.Field).Name(), cc.Pos())
				if fr.contract != nil && len(fr.contract.Ghost) > 0 {
					// ghost statements at "callback <field>": after the assertions, before the callback runs
					// (lastarg(f, i) already denotes the arguments of this call)
					c.runGhost(fr, st, fr.contract, "callback "+stt.Field(fa.Field).Name(), nil)
				}
			}
		}
	}
	// a cancel function obtained from context.WithCancel cancels its context
	cx := c.cancelOf(f)
	c.cancelCtx(st, cx, Not(Eq(cx, Null)))
	// the callback may take time (it may close its own channels and cancel contexts)
	c.observe(st)
	// a callback that was handed bound methods of a monitor whose lock is held (broadcast / getWaitCh) may
	// call them: each preserves the monitor invariant (verified separately), so afterwards the object is in
	// some state satisfying its invariants
	c.callbackMayUseMonitor(st, args)
	for h := range c.externalMods(cc) {
		c.havocHeap(st, h)
	}
	if rt == nil {
		h := c.heap(st, "G:calltime", ArrSort(SRef, SInt))
		c.setHeap(st, "G:calltime", Store(h, f, c.now(st)))
		return nil
	}
	// pure callbacks (declared in the contract): uninterpreted function of the callee and its arguments
	if c.contract != nil && c.isPureCallback(cc) {
		if tup, ok := rt.(*types.Tuple); !ok || tup.Len() == 0 {
			sorts := []Sort{SRef}
			ts := []*Term{f}
			for _, a := range args {
				t := c.asTerm(a)
				sorts = append(sorts, t.Sort)
				ts = append(ts, t)
			}
			rs := sortOf(rt)
			key := "cb!" + string(rs)
			for _, s := range sorts {
				key += "!" + string(s)
			}
			fn := c.declareFun(key, sorts, rs)
			r := TG(rs, rt, app(fn, ts...))
			if rs == SInt {
				c.fact(rangeFact(r, rt))
			}
			return c.typed(r, rt)
		}
	}
	v := c.freshVal("cb", rt)
	c.knownAll(st, v)
	c.recordRet(st, f, v)
	if fr.contract != nil {
		// ghost statements at the return of the callback: ret0, ret1 are its results
		extra := map[string]Val{}
		if tup, ok := v.(Tuple); ok {
			for i, r := range tup {
				extra[fmt.Sprintf("ret%d", i)] = r
			}
		} else {
			extra["ret0"] = v
		}
		pt := fmt.Sprintf("callbackret %d", fr.callbacks)
		hasGhost := false
		for _, g := range fr.contract.Ghost {
			if g.At == pt {
				hasGhost = true
			}
		}
		if hasGhost {
			before := st.clone()
			c.runGhost(fr, st, fr.contract, pt, extra)
			if len(st.held) == 0 && len(c.globalClauses()) > 0 {
				// recording the outcome is a (ghost) action of its own
				c.assertGlobal(st, before, strings.ReplaceAll(pt, " ", ""))
			}
		}
	}
	return v
}

// recordRet remembers the most recent results of an opaque callback (ghost: lastret(f, i), calltime(f)).
func (c *VCtx) recordRet(st *State, f *Term, v Val) {
	rs := []Val{v}
	if tup, ok := v.(Tuple); ok {
		rs = tup
	}
	for i, r := range rs {
		t, ok := r.(*Term)
		if !ok {
			continue
		}
		hn := fmt.Sprintf("G:lastret:%d:%s", i, t.Sort)
		h := c.heap(st, hn, ArrSort(SRef, t.Sort))
		c.setHeap(st, hn, Store(h, f, t))
	}
	h := c.heap(st, "G:calltime", ArrSort(SRef, SInt))
	c.setHeap(st, "G:calltime", Store(h, f, c.now(st)))
}

// spawn handles "go f(args)": the callee's precondition must hold; the callee is verified separately.
func (c *VCtx) spawn(fr *Frame, st *State, cc *ssa.CallCommon, fv *FnVal, args []Val) {
	c.lmSpawn()
	c.publish(fv)
	for _, a := range args {
		c.publish(a)
	}
	// the identity of the new goroutine ("child" in ghost statements at this point; "me" in its own contract)
	child := c.fresh("child", SRef)
	c.fact(And(Not(Eq(child, Null)), Not(Select(c.allocHeap(st), child))))
	if c.me != nil {
		c.fact(Not(Eq(child, c.me)))
	}
	for _, g := range c.ghostMaps() {
		if g.kind == "owned" {
			ks, _ := arrParts(g.sort)
			h := c.heap(st, g.heap, g.sort)
			c.fact(T(SBool, fmt.Sprintf("(forall ((k %s)) (! (not (= (select %s k) %s)) :pattern ((select %s k))))", ks, h.S, child.S, h.S)))
		}
	}
	if fr.contract != nil {
		fr.gos++
		// (assertions describe the state in which the goroutine is started; the ghost updates come after)
		if fr.contract.Asserts != nil {
			c.pointAsserts(fr, st, fmt.Sprintf("go %d", fr.gos), cc.Pos())
		}
		c.runGhost(fr, st, fr.contract, fmt.Sprintf("go %d", fr.gos), map[string]Val{"child": child})
	}
	// cells captured by a spawned closure are shared from now on
	for _, b := range append(append([]Val{}, fv.Binds...), args...) {
		if t, ok := b.(*Term); ok {
			delete(c.localAtomics, t.S)
		}
	}
	c.bumpCalls(st, c.fnID(bareName(FuncKey(fv.Fn))))
	ct := c.eng.ContractOf(fv.Fn)
	if ct == nil {
		return
	}
	sc := c.contractScope(fv.Fn, ct, fv, args, st, st, nil)
	sc.vars["me"] = child
	for i, r := range ct.Requires {
		g := c.translateBool(sc, r.E)
		c.prove(fmt.Sprintf("go.requires.%s.%s", FuncKey(fv.Fn), clauseLabel(r, i)), "precondition of spawned "+FuncKey(fv.Fn)+": "+r.Src, st.pc, g, nil)
	}
}

// applyContract replaces a call by the callee's contract.
func (c *VCtx) applyContract(fr *Frame, st *State, cc *ssa.CallCommon, ct *FuncContract, callee *ssa.Function, fv *FnVal, args []Val, rt types.Type) Val {
	pre := st.clone()
	sc := c.contractScope(callee, ct, fv, args, st, st, nil)
	for i, r := range ct.Requires {
		g := c.translateBool(sc, r.E)
		c.prove(fmt.Sprintf("call.requires.%s.%s", FuncKey(callee), clauseLabel(r, i)), "precondition of "+FuncKey(callee)+": "+r.Src, st.pc, g, nil)
		c.fact(Implies(st.pc, g))
	}
	if ct.Opts["frame"] == "skip" {
		// the callee's frame is not verified: everything may have changed, except this thread's local
		// variables that the callee cannot reach (cells not written by any closure handed to it)
		savedCells := st.cells
		savedHeaps := map[string]*Term{}
		for k, v := range st.heaps {
			if strings.HasPrefix(k, "C:") && !strings.HasPrefix(k, "C:glob") {
				savedHeaps[k] = v
			}
		}
		savedEpochHeaps := map[string]*Term{}
		for k, srt := range c.heapSorts {
			if strings.HasPrefix(k, "C:") && !strings.HasPrefix(k, "C:glob") {
				if _, ok := savedHeaps[k]; !ok {
					savedEpochHeaps[k] = c.heap(st, k, srt)
				}
			}
		}
		// objects created by this invocation that the callee cannot reach keep their fields
		c.publish(fv)
		for _, a := range args {
			c.publish(a)
		}
		private := c.privateObjects()
		type keep struct {
			heap string
			key  *Term
			val  *Term
		}
		var kept []keep
		if len(private) > 0 {
			var hs []string
			for k, srt := range c.heapSorts {
				if !strings.HasPrefix(string(srt), "(Array ") {
					continue
				}
				ks, _ := arrParts(srt)
				if ks == SRef && (strings.HasPrefix(k, "F:") || strings.HasPrefix(k, "G:")) {
					hs = append(hs, k)
				}
			}
			sort.Strings(hs)
			for _, k := range hs {
				for _, po := range private {
					// only the heaps of the object's own fields (and ghost fields)
					if !strings.HasPrefix(k, po.fprefix) && (po.gprefix == "" || !strings.HasPrefix(k, po.gprefix)) {
						continue
					}
					h := c.heap(st, k, c.heapSorts[k])
					kept = append(kept, keep{k, po.ref, c.name("keep", Select(h, po.ref))})
				}
			}
		}
		for _, po := range private {
			// a map this invocation made and never handed out keeps its entries
			if po.typ == nil {
				continue
			}
			if mt, ok := po.typ.Underlying().(*types.Map); ok {
				dn, vn, cn := mapHeapNames(mt)
				for _, hn := range []string{dn, vn, cn} {
					if srt, ok := c.heapSorts[hn]; ok {
						kept = append(kept, keep{hn, po.ref, c.name("keep", Select(c.heap(st, hn, srt), po.ref))})
					}
				}
			}
		}
		// "opt keep-held = <Type> ..." on the function under verification: the guarded state of those monitors, while
		// this thread holds their lock, survives a call whose frame is not verified - no other thread can change it
		// without the lock, and a callee under contract that touched it without declaring "opt holds" would fail
		// its own lock-discipline obligations. For a guarded map the entries, and for lists stored in it their
		// backing arrays, are kept too: that the map and the arrays are reachable only through the guarded field
		// is an assumption (listed in the evidence).
		type heldElems struct {
			mref, dom, val, eold *Term
			ks, es               Sort
		}
		var heldE []heldElems
		if kh := c.contract; kh != nil && kh.Opts["keep-held"] != "" && ct.Opts["holds"] == "" {
			var lks []string
			for lk := range st.held {
				lks = append(lks, lk)
			}
			sort.Strings(lks)
			for _, lk := range lks {
				for _, m := range st.held[lk].specs {
					if !strings.Contains(" "+kh.Opts["keep-held"]+" ", " "+m.spec.Type+" ") {
						continue
					}
					own, _ := c.guardedHeaps(m.spec, m.objT)
					for _, hn := range own {
						kept = append(kept, keep{hn, m.obj, c.name("keep", Select(c.heap(st, hn, c.heapSorts[hn]), m.obj))})
					}
					for _, is := range m.spec.Inner {
						if key := "inner:" + m.spec.Type + "." + is.Field; !c.declSet[key] {
							c.declSet[key] = true
							okp, why := c.innerDiscipline(m.objT, is)
							c.staticObl("own.inner."+m.spec.Type+"."+is.Field, "the object behind "+m.spec.Type+"."+is.Field+" is reachable only through this object, and only "+strings.Join(is.From, ", ")+" call "+strings.Join(is.Mutators, " / ")+" on it (syntactic check over the package)", okp, why)
						}
					}
					stt, ok := m.objT.Underlying().(*types.Struct)
					if !ok {
						continue
					}
					for i := 0; i < stt.NumFields(); i++ {
						f := stt.Field(i)
						mt, isMap := f.Type().Underlying().(*types.Map)
						if !isMap || !strings.Contains(" "+strings.Join(m.spec.Guarded, " ")+" ", " "+f.Name()+" ") {
							continue
						}
						if key := "mapprivate:" + m.spec.Type + "." + f.Name(); !c.declSet[key] {
							c.declSet[key] = true
							okp, why := c.mapFieldPrivate(m.objT, f.Name())
							c.staticObl("own.mapprivate."+m.spec.Type+"."+f.Name(), "the map in "+m.spec.Type+"."+f.Name()+" and the backing arrays of the lists stored in it are reachable only through that guarded field (syntactic escape check over the package)", okp, why)
						}
						fh := fieldHeapName(m.objT, f.Name())
						mref := c.name("keepmap", Select(c.heap(st, fh, c.heapSorts[fh]), m.obj))
						dn, vn, cn := mapHeapNames(mt)
						for _, hn := range []string{dn, vn, cn} {
							if srt, ok := c.heapSorts[hn]; ok {
								kept = append(kept, keep{hn, mref, c.name("keep", Select(c.heap(st, hn, srt), mref))})
							}
						}
						if sl, isSl := mt.Elem().Underlying().(*types.Slice); isSl {
							es, ks := sortOf(sl.Elem()), sortOf(mt.Key())
							en := elemHeapName(es)
							c.heapSorts[en] = ArrSort(SRef, ArrSort(SInt, es))
							heldE = append(heldE, heldElems{mref,
								c.name("keep", Select(c.heap(st, dn, ArrSort(SRef, ArrSort(ks, SBool))), mref)),
								c.name("keep", Select(c.heap(st, vn, ArrSort(SRef, ArrSort(ks, SSlice))), mref)),
								c.heap(st, en, c.heapSorts[en]), ks, es})
						}
					}
				}
			}
		}
		foreign := c.heapsOutOfReach(st, callee, args)
		for _, hn := range c.immutableHeaps() {
			// fields declared immutable: objects that exist keep their values; what the callee stores into objects
			// it creates is unknown to the caller either way (and constrained only by its postconditions)
			if srt, ok := c.heapSorts[hn]; ok {
				foreign[hn] = c.heap(st, hn, srt)
			}
		}
		for _, g := range c.ghostMaps() {
			// thread-local ghost maps change only through ghost statements the callee can reach
			if g.kind == "local" && !c.mayAssignGhost(callee, g.name) {
				foreign[g.heap] = c.heap(st, g.heap, g.sort)
			}
		}
		for k, srt := range c.heapSorts {
			if strings.HasPrefix(k, "G:writes:") || k == "G:calls" || strings.HasPrefix(k, "G:lm.") || strings.HasPrefix(k, "G:visited:") || k == "G:itermap" {
				// bookkeeping of what THIS invocation has written / called (a callee's accesses are not mine) and the
				// ghost variables of a local monitor (no other function can name them)
				foreign[k] = c.heap(st, k, srt)
			}
		}
		c.havocAll(st)
		for k, v := range foreign {
			st.heaps[k] = v
		}
		for _, kp := range kept {
			h := c.heap(st, kp.heap, c.heapSorts[kp.heap])
			st.heaps[kp.heap] = Store(h, kp.key, kp.val)
		}
		for _, po := range private {
			// nor can the callee have made any ghost map refer to them
			c.noGhostRefs(st, po.ref)
		}
		for _, he := range heldE {
			en := elemHeapName(he.es)
			enew := c.heap(st, en, c.heapSorts[en])
			c.fact(Implies(st.pc, T(SBool, fmt.Sprintf("(forall ((q!kk %s)) (! (=> (select %s q!kk) (= (select %s (s-arr (select %s q!kk))) (select %s (s-arr (select %s q!kk))))) :pattern ((select %s q!kk))))",
				he.ks, he.dom.S, enew.S, he.val.S, he.eold.S, he.val.S, he.val.S))))
		}
		c.callerOwnedFacts(st)
		for k, v := range savedHeaps {
			st.heaps[k] = v
		}
		for k, v := range savedEpochHeaps {
			st.heaps[k] = v
		}
		st.cells = savedCells
		for _, a := range args {
			fvv, ok := a.(*FnVal)
			if !ok {
				continue
			}
			for i, b := range fvv.Binds {
				l, isLoc := b.(*Loc)
				if !isLoc || l.Kind != "cell" {
					continue
				}
				if freeVarWritten(fvv.Fn, i, 0) {
					h := c.heap(st, l.Heap, ArrSort(SRef, l.Sort))
					st.heaps[l.Heap] = c.name("h", Store(h, l.Base, c.fresh("cv", l.Sort)))
					delete(st.cells, l.Base.S)
				}
			}
		}
		for _, a := range args {
			if l, isLoc := a.(*Loc); isLoc && l.Kind == "cell" {
				h := c.heap(st, l.Heap, ArrSort(SRef, l.Sort))
				st.heaps[l.Heap] = c.name("h", Store(h, l.Base, c.fresh("cv", l.Sort)))
				delete(st.cells, l.Base.S)
			}
		}
	}
	c.applyModifies(st, ct, callee, fv, args)
	if c.mayCallBack(callee, 0, map[*ssa.Function]bool{}) {
		for h := range c.heapSorts {
			if h == "G:calltime" || strings.HasPrefix(h, "G:lastret:") || strings.HasPrefix(h, "G:lastarg:") {
				c.havocHeap(st, h)
			}
		}
	}
	var res Val
	if rt != nil {
		res = c.freshVal("ret", rt)
		c.knownAll(st, res)
	}
	c.lastCallFacts(st, pre, args)
	if ct.Opts["frame"] == "skip" && c.top != nil {
		// what survives a call whose frame is not verified: the callee (running as this invocation) and
		// everybody else respect the ghost-map disciplines and the package guarantees
		c.afterOpaqueCall(st, pre, ct.Opts["holds"] != "", callee)
	}
	if ct.Opts["holds"] != "" && c.top != nil {
		// a ...Locked helper re-establishes the invariants of the monitor it works in before it returns
		// (proved at its own exit), and the global invariants with them
		var recvT *Term
		if len(args) > 0 {
			if rt, ok := args[0].(*Term); ok {
				recvT = rt
			}
		}
		for _, h := range st.held {
			for _, m := range h.specs {
				// only the receiver's own monitor and the monitors embedded in it: those are the invariants the
				// helper proves at its exit (the condition says which held monitor that is)
				c.curState = st
				cond := c.monitorIsReceivers(m, recvT, callee)
				if cond == nil {
					continue
				}
				sc := c.objScope(m, st, st)
				for _, inv := range m.spec.Invs {
					if strings.Contains(" "+ct.Opts["leaves"]+" ", " "+inv.Label+" ") {
						continue // the helper may leave this invariant broken
					}
					c.factG(And(st.pc, cond), c.translateBool(sc, inv.E))
				}
			}
		}
		for _, g := range c.globalClauses() {
			if !g.trans {
				c.factG(st.pc, c.translateBool(c.globalScope(g.pkg, st, nil), g.cl.E))
			}
		}
	}
	sc2 := c.contractScope(callee, ct, fv, args, st, pre, res)
	for _, e := range ct.Ensures {
		// postconditions that talk about the callee's local variables are meaningful only inside the callee
		if t := c.tryTranslate(sc2, e.E); t != nil {
			c.fact(Implies(st.pc, t))
		}
	}
	return res
}

func (c *VCtx) contractMods(ct *FuncContract, callee *ssa.Function) map[string]Sort {
	mods := map[string]Sort{}
	for _, m := range ct.Modifies {
		name, sort := c.resolveModifies(m, callee)
		mods[name] = sort
	}
	return mods
}

// resolveModifies maps a modifies item to a heap name. Items: "Type.field", "this.field", "elems(T)", "heap:<name>", "alloc".
func (c *VCtx) resolveModifies(item string, callee *ssa.Function) (string, Sort) {
	pkg := c.eng.TPkgs[fnPkgPath(callee)]
	switch {
	case item == "alloc":
		return "G:alloc", ArrSort(SRef, SBool)
	case item == "time":
		return "G:now", SInt
	case strings.HasPrefix(item, "elems(") && strings.HasSuffix(item, ")"):
		tn := item[6 : len(item)-1]
		var es Sort
		switch tn {
		case "byte", "int", "uint8", "int64", "uint64", "int32", "uint32":
			es = SInt
		case "string":
			es = SStr
		case "bool":
			es = SBool
		default:
			es = SRef
		}
		return elemHeapName(es), ArrSort(SRef, ArrSort(SInt, es))
	case item == "ghost:calls":
		return "G:calls", ArrSort(SRef, SInt)
	case item == "ghost:calltime":
		return "G:calltime", ArrSort(SRef, SInt)
	case item == "ghost:hstate":
		return "G:hstate", ArrSort(SRef, SInt)
	case item == "ghost:srccnt":
		return "G:srccnt", ArrSort(SRef, SInt)
	case strings.HasPrefix(item, "atomic:"):
		tn := item[7:]
		es := SInt
		if tn == "Pointer" {
			es = SRef
		}
		return "F:sync/atomic." + tn + ".v", ArrSort(SRef, es)
	case strings.HasPrefix(item, "ghost:"):
		g := item[6:]
		return c.ghostHeap(fnPkgPath(callee), g)
	}
	recv, field, ok := strings.Cut(item, ".")
	if !ok {
		unsup("bad modifies item %q", item)
	}
	var stT types.Type
	if recv == "this" {
		if callee.Signature.Recv() == nil {
			unsup("modifies this.%s on non-method", field)
		}
		stT = callee.Signature.Recv().Type()
		if p, ok := stT.(*types.Pointer); ok {
			stT = p.Elem()
		}
	} else {
		obj := pkg.Types.Scope().Lookup(recv)
		if obj == nil {
			unsup("modifies: unknown type %s", recv)
		}
		stT = obj.Type()
	}
	stt, ok := stT.Underlying().(*types.Struct)
	if !ok {
		unsup("modifies: %s is not a struct", recv)
	}
	for i := 0; i < stt.NumFields(); i++ {
		if stt.Field(i).Name() == field {
			return fieldHeapName(stT, field), ArrSort(SRef, sortOf(stt.Field(i).Type()))
		}
	}
	if name, sort := c.ghostFieldHeap(stT, field); name != "" {
		return name, sort
	}
	unsup("modifies: no field %s in %s", field, recv)
	return "", ""
}

func (c *VCtx) applyModifies(st *State, ct *FuncContract, callee *ssa.Function, fv *FnVal, args []Val) {
	for _, m := range ct.Modifies {
		name, sort := c.resolveModifies(m, callee)
		if _, ok := c.heapSorts[name]; !ok {
			c.heapSorts[name] = sort
		}
		if name == "G:now" {
			// time only moves forward
			old := c.now(st)
			n := c.fresh("now", SInt)
			c.fact(Ge(n, old))
			st.heaps["G:now"] = n
			continue
		}
		if name == "G:alloc" {
			// allocation only grows
			old := c.allocHeap(st)
			nw := c.havocHeap(st, name)
			c.fact(T(SBool, fmt.Sprintf("(forall ((r Ref)) (! (=> (select %s r) (select %s r)) :pattern ((select %s r))))", old.S, nw.S, nw.S)))
			continue
		}
		if strings.HasPrefix(m, "this.") && len(args) > 0 {
			// only the receiver's entry changes
			old := c.heap(st, name, sort)
			_, vs := arrParts(sort)
			nv := c.fresh("mod", vs)
			c.setHeap(st, name, Store(old, c.asTerm(args[0]), nv))
			continue
		}
		c.havocHeap(st, name)
	}
}

// ---------- builtins ----------

func (c *VCtx) builtin(fr *Frame, st *State, b *ssa.Builtin, cc *ssa.CallCommon, instr *ssa.Call) Val {
	switch b.Name() {
	case "len":
		v := fr.eval(cc.Args[0])
		switch t := cc.Args[0].Type().Underlying().(type) {
		case *types.Slice:
			return TG(SInt, types.Typ[types.Int], SlLen(c.asTerm(v)).S)
		case *types.Basic:
			return TG(SInt, types.Typ[types.Int], StrLen(c.asTerm(v)).S)
		case *types.Map:
			m := c.asTerm(v)
			_, _, cn := mapHeapNames(t)
			c.checkMapAccess(fr, st, m, cc.Args[0], false, cc.Pos())
			card := c.heap(st, cn, ArrSort(SRef, SInt))
			r := c.name("mlen", Ite(Eq(m, Null), IntLit(0), Select(card, m)))
			c.fact(Ge(r, IntLit(0)))
			c.mapCardFacts(st, t, m, r)
			r.GT = types.Typ[types.Int]
			return r
		case *types.Pointer:
			return IntLit(t.Elem().Underlying().(*types.Array).Len())
		case *types.Chan:
			r := c.fresh("chlen", SInt)
			c.fact(Ge(r, IntLit(0)))
			return r
		}
	case "cap":
		v := fr.eval(cc.Args[0])
		switch t := cc.Args[0].Type().Underlying().(type) {
		case *types.Slice:
			return TG(SInt, types.Typ[types.Int], SlCap(c.asTerm(v)).S)
		case *types.Pointer:
			return IntLit(t.Elem().Underlying().(*types.Array).Len())
		}
	case "append":
		return c.appendOp(fr, st, cc)
	case "copy":
		return c.copyOp(fr, st, cc)
	case "delete":
		c.mapDelete(fr, st, cc.Args[0], cc.Args[1], cc.Pos())
		return nil
	case "close":
		ch := fr.term(cc.Args[0])
		if fr.contract != nil && fr.contract.Asserts != nil {
			// assertions at "close N" / "close *" describe the state just before the close (e.g. the token that
			// entitles this invocation to close the channel)
			c.pointAsserts(fr, st, fmt.Sprintf("close %d", fr.closes+1), cc.Pos())
			c.pointAsserts(fr, st, "close *", cc.Pos())
		}
		c.safety(fr, st, "close", And(Not(Eq(ch, Null)), Not(c.isClosed(st, ch))), cc.Pos())
		c.noteClose(fr, st, ch)
		// the close happens now: this resolves the prophecy closedAt(ch)
		before := st.clone()
		n := c.tick(st, ch, false)
		c.fact(Implies(st.pc, Eq(c.closedAt(ch), n)))
		if fr.contract != nil {
			fr.closes++
			c.runGhost(fr, st, fr.contract, fmt.Sprintf("close %d", fr.closes), nil)
			c.runGhost(fr, st, fr.contract, "close *", nil)
		}
		if len(st.held) == 0 && len(c.globalClauses()) > 0 {
			// close() outside a critical section is an atomic action of its own
			c.closeCount++
			where := ""
			if fr.curBlock != nil {
				// (a deferred close runs at a return: say which one)
				where = fmt.Sprintf(" [block %d %s", fr.curBlock.Index, fr.curBlock.Comment)
				for _, in := range fr.curBlock.Instrs {
					if r, ok := in.(*ssa.Return); ok && r.Pos().IsValid() {
						where += ", return at " + c.eng.pos(r.Pos())
					}
				}
				where += "]"
			}
			c.assertGlobal(st, before, fmt.Sprintf("close%d", c.closeCount)+where)
		}
		return nil
	case "min", "max":
		a, b2 := fr.term(cc.Args[0]), fr.term(cc.Args[1])
		if len(cc.Args) != 2 || a.Sort != SInt {
			unsup("min/max form")
		}
		if b.Name() == "min" {
			return Ite(Le(a, b2), a, b2)
		}
		return Ite(Ge(a, b2), a, b2)
	case "panic":
		return nil
	case "print", "println":
		return nil
	case "recover":
		return Null
	}
	unsup("builtin %s", b.Name())
	return nil
}

func (c *VCtx) mapCardFacts(st *State, mt *types.Map, m, card *Term) {
	dn, _, _ := mapHeapNames(mt)
	ks := sortOf(mt.Key())
	dom := c.heap(st, dn, ArrSort(SRef, ArrSort(ks, SBool)))
	// 0 <= card < 2^48; card = 0 <=> domain empty (the only cardinality facts used)
	c.fact(And(Ge(card, IntLit(0)), Lt(card, IntLitS("281474976710656"))))
	c.fact(Implies(Not(Eq(m, Null)), T(SBool, fmt.Sprintf("(= (= %s 0) (forall ((kk %s)) (not (select (select %s %s) kk))))", card.S, ks, dom.S, m.S))))
}

// rangeWrite: the heap after writing n elements into the backing array of dst starting at dst[dstRel0];
// element k (0 <= k < n) comes from srcAt(k). Indices of slices are written with sidx so that instances of
// this definition produce the same index terms as contract expressions s[i].
func (c *VCtx) rangeWrite(st *State, es Sort, dst *Term, dstRel0 *Term, srcAt func(k string) string, n *Term) {
	hn := elemHeapName(es)
	hs := ArrSort(SRef, ArrSort(SInt, es))
	h := c.heap(st, hn, hs)
	arr := SlArr(dst)
	na := c.fresh("A", ArrSort(SInt, es))
	oldA := Select(h, arr)
	lo := fmt.Sprintf("(sidx %s %s)", dst.S, dstRel0.S)
	c.defFact(na, T(SBool, fmt.Sprintf("(forall ((j Int)) (! (= (select %s j) (ite (and (<= %s j) (< j (+ %s %s))) %s (select %s j))) :pattern ((select %s j))))",
		na.S, lo, lo, n.S, srcAt(fmt.Sprintf("(- j %s)", lo)), oldA.S, na.S)))
	// the same definition phrased over slice positions: dst[dstRel0+k] = src(k)
	c.defFact(na, T(SBool, fmt.Sprintf("(forall ((k Int)) (! (=> (and (<= 0 k) (< k %s)) (= (select %s (sidx %s (+ %s k))) %s)) :pattern ((sidx %s (+ %s k)))))",
		n.S, na.S, dst.S, dstRel0.S, srcAt("k"), dst.S, dstRel0.S)))
	c.setHeap(st, hn, Store(h, arr, na))
}

func (c *VCtx) appendOp(fr *Frame, st *State, cc *ssa.CallCommon) Val {
	s := fr.term(cc.Args[0])
	sl := cc.Args[0].Type().Underlying().(*types.Slice)
	es := sortOf(sl.Elem())
	hn := elemHeapName(es)
	hs := ArrSort(SRef, ArrSort(SInt, es))
	var srcAt func(k string) string
	var n *Term
	if sortOf(cc.Args[1].Type()) == SStr {
		t := fr.term(cc.Args[1])
		srcAt = func(k string) string { return fmt.Sprintf("(select (str-data %s) %s)", t.S, k) }
		n = StrLen(t)
	} else {
		t := fr.term(cc.Args[1])
		h := c.heap(st, hn, hs)
		src := c.name("src", Select(h, SlArr(t)))
		srcAt = func(k string) string { return fmt.Sprintf("(select %s (sidx %s %s))", src.S, t.S, k) }
		n = SlLen(t)
	}
	newLen := c.name("alen", Add(SlLen(s), n))
	grow := c.fresh("grow", SBool)
	c.defFact(grow, Eq(grow, Gt(newLen, SlCap(s))))
	// grown: fresh array holding the old contents
	h := c.heap(st, hn, hs)
	farr := c.freshRef(st, "arr")
	fcap := c.fresh("cap", SInt)
	c.defFact(fcap, And(Ge(fcap, newLen), Lt(fcap, IntLitS(pow2str(62)))))
	fcont := c.fresh("A", ArrSort(SInt, es))
	oldA := Select(h, SlArr(s))
	c.defFact(fcont, T(SBool, fmt.Sprintf("(forall ((j Int)) (! (=> (and (<= 0 j) (< j (s-len %s))) (= (select %s j) (select %s (sidx %s j)))) :pattern ((select %s j))))", s.S, fcont.S, oldA.S, s.S, fcont.S)))
	h = c.heap(st, hn, hs)
	c.setHeap(st, hn, Ite(grow, Store(h, farr, fcont), h))
	res := c.name("app", Ite(grow, MkSlice(farr, IntLit(0), newLen, fcap, cc.Args[0].Type()), MkSlice(SlArr(s), SlOff(s), newLen, SlCap(s), cc.Args[0].Type())))
	res.GT = cc.Args[0].Type()
	if sl1, ok := cc.Args[1].(*ssa.Slice); ok && sl1.Low == nil && sl1.High == nil {
		if al, ok := sl1.X.(*ssa.Alloc); ok {
			if at, ok := al.Type().Underlying().(*types.Pointer).Elem().Underlying().(*types.Array); ok && at.Len() == 1 {
				// append(s, x): one element, written with a plain store (no quantified range definition)
				h2 := c.heap(st, hn, hs)
				arr := SlArr(res)
				na := c.name("A1", Store(Select(h2, arr), SIdx(res, SlLen(s)), T(es, srcAt("0"))))
				c.setHeap(st, hn, Store(h2, arr, na))
				// consequences of the definitions above, phrased over slice positions (both the grown and the
				// in-place case): res[j] = s[j] for j < len(s), res[len(s)] = x
				oa := c.name("A0", oldA)
				c.fact(T(SBool, fmt.Sprintf("(forall ((j Int)) (! (=> (and (<= 0 j) (< j (s-len %s))) (= (select %s (sidx %s j)) (select %s (sidx %s j)))) :pattern ((select %s (sidx %s j))) :pattern ((select %s (sidx %s j)))))",
					s.S, na.S, res.S, oa.S, s.S, na.S, res.S, oa.S, s.S)))
				c.fact(Eq(Select(na, SIdx(res, SlLen(s))), T(es, srcAt("0"))))
				c.fact(Eq(SlLen(res), Add(SlLen(s), IntLit(1))))
				return res
			}
		}
	}
	c.rangeWrite(st, es, res, SlLen(s), srcAt, n)
	return res
}

func (c *VCtx) copyOp(fr *Frame, st *State, cc *ssa.CallCommon) Val {
	d := fr.term(cc.Args[0])
	sl := cc.Args[0].Type().Underlying().(*types.Slice)
	es := sortOf(sl.Elem())
	hn := elemHeapName(es)
	hs := ArrSort(SRef, ArrSort(SInt, es))
	var srcAt func(k string) string
	var sn *Term
	if sortOf(cc.Args[1].Type()) == SStr {
		t := fr.term(cc.Args[1])
		srcAt = func(k string) string { return fmt.Sprintf("(select (str-data %s) %s)", t.S, k) }
		sn = StrLen(t)
	} else {
		t := fr.term(cc.Args[1])
		h := c.heap(st, hn, hs)
		src := c.name("src", Select(h, SlArr(t)))
		srcAt = func(k string) string { return fmt.Sprintf("(select %s (sidx %s %s))", src.S, t.S, k) }
		sn = SlLen(t)
	}
	n := c.name("cpn", Ite(Le(SlLen(d), sn), SlLen(d), sn))
	c.rangeWrite(st, es, d, IntLit(0), srcAt, n)
	n.GT = types.Typ[types.Int]
	return n
}

// fnID is an opaque constant standing for a function (used as key of the spawn counter); it is distinct
// from nil and from every object that exists at function entry.
func (c *VCtx) fnID(key string) *Term {
	t := c.declare("fnid!"+key, SRef)
	if !c.declSet["fnidfact:"+t.S] {
		c.declSet["fnidfact:"+t.S] = true
		a0 := c.declare(c.heapName("G:alloc", 0), ArrSort(SRef, SBool))
		c.heapSorts["G:alloc"] = ArrSort(SRef, SBool)
		c.facts0(And(Not(Eq(t, Null)), Not(Select(a0, t))))
	}
	return t
}

// bareName strips the receiver from a contract key: "(*T).M$1" -> "M$1".
func bareName(key string) string {
	if strings.HasPrefix(key, "(") {
		if i := strings.Index(key, ")."); i >= 0 {
			return key[i+2:]
		}
	}
	return key
}

// mayCallBack: can fn (transitively) call a function value that is not statically known?
func (c *VCtx) mayCallBack(fn *ssa.Function, depth int, seen map[*ssa.Function]bool) bool {
	if seen[fn] {
		return false
	}
	seen[fn] = true
	if depth > 8 || len(fn.Blocks) == 0 {
		return true
	}
	for _, b := range fn.Blocks {
		for _, in := range b.Instrs {
			ci, ok := in.(ssa.CallInstruction)
			if !ok {
				continue
			}
			cc := ci.Common()
			if _, isB := cc.Value.(*ssa.Builtin); isB {
				continue
			}
			callee := cc.StaticCallee()
			if callee == nil {
				if cc.IsInvoke() && c.invokeModel(cc) != nil {
					continue
				}
				return true
			}
			if c.staticModel(callee) != nil {
				for _, a := range cc.Args {
					if _, isSig := a.Type().Underlying().(*types.Signature); isSig {
						return true
					}
				}
				continue
			}
			if strings.HasPrefix(fnPkgPath(callee), ModPath) || callee.Parent() != nil {
				if c.mayCallBack(callee, depth+1, seen) {
					return true
				}
				continue
			}
			for _, a := range cc.Args {
				if _, isSig := a.Type().Underlying().(*types.Signature); isSig {
					return true
				}
			}
		}
	}
	return false
}

func (c *VCtx) callbackMayUseMonitor(st *State, args []Val) {
	for _, a := range args {
		fv, ok := a.(*FnVal)
		if !ok || len(fv.Binds) == 0 {
			continue
		}
		recv, ok := fv.Binds[0].(*Term)
		if !ok {
			continue
		}
		for _, h := range st.held {
			for _, m := range h.specs {
				if m.obj.S != recv.S {
					continue
				}
				own, whole := c.guardedHeaps(m.spec, m.objT)
				for _, hn := range own {
					hs := c.heapSorts[hn]
					cur := c.heap(st, hn, hs)
					_, vs := arrParts(hs)
					nv := c.fresh("hv", vs)
					c.wfValue(st, nv)
					st.heaps[hn] = c.name("h", Store(cur, m.obj, nv))
				}
				for _, hn := range whole {
					c.havocHeap(st, hn)
				}
				sc := c.objScope(m, st, st)
				for _, inv := range m.spec.Invs {
					c.fact(Implies(st.pc, c.translateBool(sc, inv.E)))
				}
				return
			}
		}
	}
}

// tryTranslate translates a clause; nil if it mentions names that do not exist in this scope.
func (c *VCtx) tryTranslate(sc *Scope, e Expr) (t *Term) {
	nf := len(c.facts)
	defer func() {
		if r := recover(); r != nil {
			if _, ok := r.(unsupported); ok {
				// declarations made so far stay (harmless); facts are rolled back
				c.facts = c.facts[:nf]
				t = nil
				return
			}
			panic(r)
		}
	}()
	return c.translateBool(sc, e)
}

// isPureCallback: the contract option "pure-callbacks = f1 f2" names function-typed struct fields whose
// values are pure functions (comparators, key extractors); "*" means every callback.
func (c *VCtx) isPureCallback(cc *ssa.CallCommon) bool {
	opt := c.contract.Opts["pure-callbacks"]
	if opt == "" {
		return false
	}
	if opt == "*" {
		return true
	}
	name := ""
	if u, ok := cc.Value.(*ssa.UnOp); ok {
		if fa, ok := u.X.(*ssa.FieldAddr); ok {
			name = deref(fa.X.Type()).Underlying().(*types.Struct).Field(fa.Field).Name()
		}
	}
	for _, f := range strings.Fields(strings.ReplaceAll(opt, ",", " ")) {
		if f == name {
			return true
		}
	}
	return false
}

// lastCallFacts: a known closure with a contract that was handed to the callee may have been called by it;
// if it was (its call counter grew), its most recent call satisfied its postcondition: the clauses are
// assumed for args = lastarg(f, i), result = lastret(f, j). Only for closures declared pure.
func (c *VCtx) lastCallFacts(st, pre *State, args []Val) {
	for _, a := range args {
		fv, ok := a.(*FnVal)
		if !ok {
			continue
		}
		ct := c.eng.ContractOf(fv.Fn)
		if ct == nil || !ct.Pure || len(ct.Ensures) == 0 {
			continue
		}
		f := c.asTerm(fv)
		var largs []Val
		for i, p := range fv.Fn.Params {
			s := sortOf(p.Type())
			hn := fmt.Sprintf("G:lastarg:%d:%s", i, s)
			h := c.heap(st, hn, ArrSort(SRef, s))
			largs = append(largs, c.typed(TG(s, p.Type(), Select(h, f).S), p.Type()))
		}
		var res Val
		rs := fv.Fn.Signature.Results()
		var tup Tuple
		for j := 0; j < rs.Len(); j++ {
			s := sortOf(rs.At(j).Type())
			hn := fmt.Sprintf("G:lastret:%d:%s", j, s)
			h := c.heap(st, hn, ArrSort(SRef, s))
			tup = append(tup, c.typed(TG(s, rs.At(j).Type(), Select(h, f).S), rs.At(j).Type()))
		}
		if len(tup) == 1 {
			res = tup[0]
		} else if len(tup) > 1 {
			res = tup
		}
		called := Gt(Select(c.heap(st, "G:calls", ArrSort(SRef, SInt)), f), Select(c.heap(pre, "G:calls", ArrSort(SRef, SInt)), f))
		sc := c.contractScope(fv.Fn, ct, fv, largs, st, st, res)
		for _, e := range ct.Ensures {
			if t := c.tryTranslate(sc, e.E); t != nil {
				c.fact(Implies(And(st.pc, called), t))
			}
		}
	}
}

// privateObjects: struct objects allocated by this invocation and not reachable by anybody else yet, with the
// structs embedded in them; fprefix / gprefix select the heaps of their fields and ghost fields.
type privObj struct {
	ref              *Term
	fprefix, gprefix string
	typ              types.Type
}

func (c *VCtx) privateObjects() []privObj {
	var out []privObj
	seen := map[string]bool{}
	mk := func(r *Term, t types.Type) {
		if p, ok := t.(*types.Pointer); ok {
			t = p.Elem()
		}
		po := privObj{ref: r, fprefix: fieldHeapName(t, ""), typ: t}
		if sp := c.objectSpec(t); sp != nil {
			po.gprefix = "G:" + shortPkg(sp.Pkg) + "." + sp.Type + "."
		}
		out = append(out, po)
	}
	for _, r := range c.allFresh {
		if !c.isPublished(r) && r.GT != nil {
			mk(r, r.GT)
			seen[r.S] = true
		}
	}
	if len(out) == 0 {
		return nil
	}
	var keys []string
	for k := range c.embedded {
		keys = append(keys, k)
	}
	sort.Strings(keys)
	for _, k := range keys {
		info := c.embedded[k]
		if len(info.chain) > 0 && seen[info.chain[0].term.S] && !seen[k] && info.typ != nil {
			seen[k] = true
			mk(T(SRef, k), info.typ)
		}
	}
	return out
}

func (c *VCtx) isGhostFieldHeap(h string) bool {
	if !strings.HasPrefix(h, "G:") {
		return false
	}
	for _, pkg := range c.relevantPkgs() {
		for _, sp := range c.eng.Specs[pkg].Objects {
			for _, gf := range sp.Ghost {
				if n, _ := c.ghostFieldHeapFor(sp, gf); n == h {
					return true
				}
			}
		}
	}
	return false
}

// afterOpaqueCall relates the state after a frame-skip call to the state before it: set-once ghost entries keep
// their value, alloc only grows, the two-state guarantees hold for the step, and (outside critical sections)
// the global invariants hold again.
// callerOwnedFacts: the contract option "caller-owned = s1 s2" names slice parameters whose elements nobody
// writes while the function runs (they belong to the caller, who is blocked in this call; callbacks are
// assumed not to write them). Listed as an assumption in the evidence.
func (c *VCtx) callerOwnedArrays() []*Term {
	fr := c.rootFrame
	if fr == nil || c.contract == nil || c.contract.Opts["caller-owned"] == "" {
		return nil
	}
	var out []*Term
	for _, name := range strings.Fields(strings.ReplaceAll(c.contract.Opts["caller-owned"], ",", " ")) {
		for _, p := range fr.fn.Params {
			if p.Name() == name {
				out = append(out, SlArr(c.asTerm(fr.env[p])))
			}
		}
	}
	return out
}

func (c *VCtx) callerOwnedFacts(st *State) {
	fr := c.rootFrame
	if fr == nil || c.contract == nil || c.contract.Opts["caller-owned"] == "" || fr.entry == nil {
		return
	}
	for _, name := range strings.Fields(strings.ReplaceAll(c.contract.Opts["caller-owned"], ",", " ")) {
		for _, p := range fr.fn.Params {
			if p.Name() != name {
				continue
			}
			sl, ok := p.Type().Underlying().(*types.Slice)
			if !ok {
				unsup("caller-owned %s: not a slice parameter", name)
			}
			es := sortOf(sl.Elem())
			hs := ArrSort(SRef, ArrSort(SInt, es))
			old := c.heap(fr.entry, elemHeapName(es), hs)
			nw := c.heap(st, elemHeapName(es), hs)
			if old.S == nw.S {
				continue
			}
			arr := SlArr(c.asTerm(fr.env[p]))
			c.eng.assume(fmt.Sprintf("%s: the elements of the slice argument %s are not written while the call runs (caller-owned; callbacks are assumed not to write it)", FuncKey(fr.fn), name))
			c.linkFact(Eq(Select(nw, arr), Select(old, arr)))
		}
	}
}

// ownSliceFacts: the contract option "own-slices = v1 v2" names slice variables of the function under
// verification that only ever hold nil or the result of append on themselves and are used only as the
// destination of append, in len/cap, and as results (checked syntactically): their backing arrays are
// created by this invocation and never handed out before it returns, so no call can change their contents.
func (c *VCtx) ownSliceFacts(st, pre *State) {
	fr := c.rootFrame
	if fr == nil || c.contract == nil || c.contract.Opts["own-slices"] == "" || len(fr.fn.Blocks) == 0 {
		return
	}
	for _, name := range strings.Fields(strings.ReplaceAll(c.contract.Opts["own-slices"], ",", " ")) {
		var al *ssa.Alloc
		for _, in := range fr.fn.Blocks[0].Instrs {
			if a, ok := in.(*ssa.Alloc); ok && a.Comment == name {
				al = a
			}
		}
		if al == nil || fr.env[al] == nil {
			unsup("own-slices %s: no such variable cell", name)
		}
		sl, ok := al.Type().Underlying().(*types.Pointer).Elem().Underlying().(*types.Slice)
		if !ok {
			unsup("own-slices %s: not a slice variable", name)
		}
		if !ownSliceShape(al) {
			unsup("own-slices %s: the variable is used other than as append destination / len / cap / result", name)
		}
		es := sortOf(sl.Elem())
		hs := ArrSort(SRef, ArrSort(SInt, es))
		old := c.heap(pre, elemHeapName(es), hs)
		nw := c.heap(st, elemHeapName(es), hs)
		if old.S == nw.S {
			continue
		}
		cur := c.asTerm(c.load(fr, pre, fr.env[al], 0))
		arr := SlArr(cur)
		c.linkFact(Or(Eq(arr, Null), Eq(Select(nw, arr), Select(old, arr))))
	}
}

// ownSliceShape: every use of the variable cell is a load feeding append (as destination), len, cap, a
// return or a debug reference, or a store of nil / of an append whose destination is a load of the cell.
func ownSliceShape(al *ssa.Alloc) bool {
	isLoadOf := func(v ssa.Value) bool {
		u, ok := v.(*ssa.UnOp)
		return ok && u.Op == token.MUL && u.X == al
	}
	for _, r := range *al.Referrers() {
		switch x := r.(type) {
		case *ssa.DebugRef:
		case *ssa.Store:
			if x.Addr != al {
				return false
			}
			if cst, ok := x.Val.(*ssa.Const); ok && cst.IsNil() {
				continue
			}
			call, ok := x.Val.(*ssa.Call)
			if !ok {
				return false
			}
			b, ok := call.Call.Value.(*ssa.Builtin)
			if !ok || b.Name() != "append" || !isLoadOf(call.Call.Args[0]) {
				return false
			}
		case *ssa.UnOp:
			if !isLoadOf(x) {
				return false
			}
			for _, rr := range *x.Referrers() {
				switch y := rr.(type) {
				case *ssa.DebugRef, *ssa.Return:
				case *ssa.Call:
					b, ok := y.Call.Value.(*ssa.Builtin)
					if !ok {
						return false
					}
					switch b.Name() {
					case "len", "cap":
					case "append":
						if y.Call.Args[0] != x {
							return false
						}
						for _, a := range y.Call.Args[1:] {
							if a == x {
								return false
							}
						}
					default:
						return false
					}
				default:
					return false
				}
			}
		default:
			return false
		}
	}
	return true
}

func (c *VCtx) afterOpaqueCall(st, pre *State, worksUnderCallerLock bool, callee *ssa.Function) {
	c.callerOwnedFacts(st)
	c.ownSliceFacts(st, pre)
	// fields declared immutable keep their value on every object that existed before the call
	allocPre := c.allocHeap(pre)
	if allocPost := c.allocHeap(st); allocPost.S != allocPre.S {
		// objects are never deallocated
		c.linkFact(T(SBool, fmt.Sprintf("(forall ((r Ref)) (! (=> (select %s r) (select %s r)) :pattern ((select %s r))))", allocPre.S, allocPost.S, allocPre.S)))
	}
	for _, hn := range c.immutableHeaps() {
		srt, ok := c.heapSorts[hn]
		if !ok {
			continue
		}
		old := c.heap(pre, hn, srt)
		nw := c.heap(st, hn, srt)
		if old.S == nw.S {
			continue
		}
		c.linkFact(T(SBool, fmt.Sprintf("(forall ((r Ref)) (! (=> (select %s r) (= (select %s r) (select %s r))) :pattern ((select %s r))))", allocPre.S, nw.S, old.S, nw.S)))
	}
	for _, g := range c.ghostMaps() {
		if g.kind != "once" {
			continue
		}
		old := c.heap(pre, g.heap, g.sort)
		nw := c.heap(st, g.heap, g.sort)
		if old.S == nw.S {
			continue
		}
		ks, _ := arrParts(g.sort)
		c.linkFact(T(SBool, fmt.Sprintf("(forall ((k %s)) (! (=> (not (= (select %s k) %s)) (= (select %s k) (select %s k))) :pattern ((select %s k)) :pattern ((select %s k))))", ks, old.S, g.zero, nw.S, old.S, nw.S, old.S)))
	}
	// owned ghost maps (and the maps written under their tokens): entries this invocation holds stay its own unless
	// the callee can reach a function whose contract assigns that map
	if callee != nil {
		for _, g := range c.ghostMaps() {
			if g.kind != "owned" && g.kind != "by" {
				continue
			}
			if c.mayAssignGhost(callee, g.name) {
				continue
			}
			old := c.heap(pre, g.heap, g.sort)
			nw := c.heap(st, g.heap, g.sort)
			if old.S == nw.S {
				continue
			}
			ks, _ := arrParts(g.sort)
			if g.kind == "owned" {
				c.linkFact(T(SBool, fmt.Sprintf("(forall ((k %s)) (! (= (= (select %s k) me) (= (select %s k) me)) :pattern ((select %s k))))", ks, old.S, nw.S, nw.S)))
			} else if tk := c.ghostMapByName(g.token); tk != nil && !c.mayAssignGhost(callee, tk.name) {
				tokOld := c.heap(pre, tk.heap, tk.sort)
				c.linkFact(T(SBool, fmt.Sprintf("(forall ((k %s)) (! (=> (= (select %s k) me) (= (select %s k) (select %s k))) :pattern ((select %s k))))", ks, tokOld.S, nw.S, old.S, nw.S)))
			}
		}
	}
	// the call took time
	c.fact(Ge(c.now(st), c.now(pre)))
	// global invariants hold for the state observed now, the guarantees for the step (the callee proves them for
	// its own actions, everybody else's are the rely)
	_ = worksUnderCallerLock
	c.assumeGlobal(st, pre)
}

// immutableHeaps: the field heaps of all fields declared immutable in the relevant packages.
func (c *VCtx) immutableHeaps() []string {
	var out []string
	for _, pkg := range c.relevantPkgs() {
		ps := c.eng.Specs[pkg]
		short := strings.TrimPrefix(pkg, ModPath+"/")
		var names []string
		for n := range ps.Objects {
			names = append(names, n)
		}
		sort.Strings(names)
		for _, n := range names {
			for _, f := range ps.Objects[n].Immut {
				if strings.Contains(f, ".") {
					out = append(out, "F:"+short+"."+f)
				} else {
					out = append(out, "F:"+short+"."+n+"."+f)
				}
			}
		}
	}
	return out
}

// monitorOfReceiver: is m the monitor of the helper's receiver object, or of an object embedded in it?
func (c *VCtx) monitorOfReceiver(m *monitorRef, recvS string) bool {
	if recvS == "" {
		return false
	}
	if m.obj.S == recvS {
		return true
	}
	if info := c.embedded[m.obj.S]; info != nil {
		for _, lk := range info.chain {
			if lk.term.S == recvS {
				return true
			}
		}
	}
	return false
}

// monitorIsReceivers: the condition under which held monitor m is one of the monitors a ...Locked helper relies
// on: the helper's lock (receiver + "opt holds" path) is the lock m belongs to, and m's type lies on that path
// (the receiver itself or an object the path goes through). nil if it cannot be.
func (c *VCtx) monitorIsReceivers(m *monitorRef, recv *Term, callee *ssa.Function) *Term {
	if recv == nil || callee.Signature.Recv() == nil {
		return nil
	}
	ct := c.eng.ContractOf(callee)
	if ct == nil || ct.Opts["holds"] == "" {
		return nil
	}
	// types on the path
	onPath := map[string]bool{}
	curT := deref(callee.Params[0].Type())
	onPath[typeKey(curT)] = true
	for _, part := range strings.Split(ct.Opts["holds"], ".") {
		stt, ok := curT.Underlying().(*types.Struct)
		if !ok {
			break
		}
		for i := 0; i < stt.NumFields(); i++ {
			if stt.Field(i).Name() == part {
				ft := stt.Field(i).Type()
				if pt, isPtr := ft.Underlying().(*types.Pointer); isPtr {
					curT = pt.Elem()
				} else {
					curT = ft
				}
				onPath[typeKey(curT)] = true
			}
		}
	}
	if !onPath[typeKey(m.objT)] {
		return nil
	}
	// which held lock is it?
	st := c.curState
	if st == nil {
		return nil
	}
	lock := c.lockByPath(st, recv, deref(callee.Params[0].Type()), ct.Opts["holds"])
	for _, h := range st.held {
		for _, hm := range h.specs {
			if hm == m {
				if h.obj.S == lock.S {
					return True
				}
				return Eq(h.obj, lock)
			}
		}
	}
	return nil
}

// heapsOutOfReach: field and ghost heaps of packages that the callee's package does not (transitively) import
// cannot be touched by the callee, provided it is not handed any function value it could call back.
func (c *VCtx) heapsOutOfReach(st *State, callee *ssa.Function, args []Val) map[string]*Term {
	out := map[string]*Term{}
	var calleePkg *types.Package
	if tp := c.eng.TPkgs[fnPkgPath(callee)]; tp != nil {
		calleePkg = tp.Types // (instantiations of generic functions have no ssa package of their own)
	}
	if calleePkg == nil {
		return out
	}
	for _, a := range args {
		switch x := a.(type) {
		case *FnVal:
			return out
		case *Term:
			if x.GT != nil {
				if _, isSig := x.GT.Underlying().(*types.Signature); isSig {
					return out
				}
			}
		}
	}
	if len(callee.FreeVars) > 0 {
		return out
	}
	reach := map[string]bool{}
	var walk func(p *types.Package)
	walk = func(p *types.Package) {
		if p == nil || reach[p.Path()] {
			return
		}
		reach[p.Path()] = true
		for _, q := range p.Imports() {
			walk(q)
		}
	}
	walk(calleePkg)
	touchesMaps := false
	for p := range reach {
		if c.pkgTouchesMaps(p) {
			touchesMaps = true
		}
	}
	for k, srt := range c.heapSorts {
		var pkg string
		switch {
		case strings.HasPrefix(k, "M:") && !touchesMaps:
			// no code the callee can reach ever creates, updates or deletes from a map
			out[k] = c.heap(st, k, srt)
			continue
		case strings.HasPrefix(k, "F:"):
			rest := k[2:]
			i := strings.LastIndex(rest, ".")
			if i < 0 {
				continue
			}
			tkey := rest[:i]
			j := strings.LastIndex(tkey, ".")
			if j < 0 {
				continue
			}
			pkg = tkey[:j]
		case strings.HasPrefix(k, "G:") && strings.Contains(k[2:], "."):
			// shared ghost maps are not frozen during the call (other threads act meanwhile): they are havocked and
			// related to their old value by the rely in afterOpaqueCall. Thread-local maps and the ghost fields
			// of objects are kept like ordinary fields.
			shared := false
			for _, g := range c.ghostMaps() {
				if g.heap == k && g.kind != "local" {
					shared = true
				}
			}
			if shared {
				continue
			}
			pkg = k[2:][:strings.Index(k[2:], ".")]
		default:
			continue
		}
		full := pkg
		if !strings.Contains(pkg, "/") || !strings.HasPrefix(pkg, "github.com") {
			if strings.HasPrefix(pkg, "sync") || !strings.Contains(k, ".") {
				continue
			}
			full = ModPath + "/" + pkg
		}
		if _, isRepo := c.eng.TPkgs[full]; !isRepo {
			continue
		}
		if reach[full] {
			continue
		}
		out[k] = c.heap(st, k, srt)
	}
	return out
}

var mapTouchCache = map[string]bool{}
var mapTouchMu sync.Mutex

// pkgTouchesMaps: does any function of the (repository) package update, delete from or create a map?
func (c *VCtx) pkgTouchesMaps(path string) bool {
	mapTouchMu.Lock()
	defer mapTouchMu.Unlock()
	if v, ok := mapTouchCache[path]; ok {
		return v
	}
	res := false
	sp := c.eng.SPkgs[path]
	if sp == nil || !strings.HasPrefix(path, ModPath) {
		// outside the repository: standard library packages do not know the repository's maps
		mapTouchCache[path] = false
		return false
	}
	var scan func(fn *ssa.Function)
	scan = func(fn *ssa.Function) {
		for _, b := range fn.Blocks {
			for _, in := range b.Instrs {
				switch x := in.(type) {
				case *ssa.MapUpdate, *ssa.MakeMap:
					res = true
				case *ssa.Call:
					if bi, ok := x.Call.Value.(*ssa.Builtin); ok && (bi.Name() == "delete" || bi.Name() == "clear") {
						res = true
					}
				}
			}
		}
		for _, an := range fn.AnonFuncs {
			scan(an)
		}
	}
	for _, m := range sp.Members {
		switch x := m.(type) {
		case *ssa.Function:
			scan(x)
		case *ssa.Type:
			for _, t := range []types.Type{x.Type(), types.NewPointer(x.Type())} {
				ms := c.eng.Prog.MethodSets.MethodSet(t)
				for i := 0; i < ms.Len(); i++ {
					if f := c.eng.Prog.MethodValue(ms.At(i)); f != nil {
						scan(f)
					}
				}
			}
			// methods of generic types have no MethodValue: take their generic bodies
			if n, ok := x.Type().(*types.Named); ok {
				for i := 0; i < n.NumMethods(); i++ {
					if f := c.eng.Prog.FuncValue(n.Method(i)); f != nil {
						scan(f)
					}
				}
			}
		}
	}
	mapTouchCache[path] = res
	return res
}

var ghostAssignCache = map[string]bool{}
var ghostAssignMu sync.Mutex

// mayAssignGhost: can callee, through static calls (including the closures it creates), reach a function whose
// contract has a ghost statement assigning ghost map name? Calls through function values it was handed are the
// caller's own closures or user callbacks (which do not execute library ghost code of their own accord).
func (c *VCtx) mayAssignGhost(callee *ssa.Function, name string) bool {
	key := callee.String() + "|" + name
	ghostAssignMu.Lock()
	if v, ok := ghostAssignCache[key]; ok {
		ghostAssignMu.Unlock()
		return v
	}
	ghostAssignMu.Unlock()
	seen := map[*ssa.Function]bool{}
	var visit func(f *ssa.Function) bool
	visit = func(f *ssa.Function) bool {
		if f == nil || seen[f] {
			return false
		}
		seen[f] = true
		if o := f.Origin(); o != nil && o != f {
			if visit(o) {
				return true
			}
		}
		if ct := c.eng.ContractOf(f); ct != nil {
			for _, g := range ct.Ghost {
				lhs, _, _ := strings.Cut(g.Src, ":=")
				if strings.HasPrefix(strings.TrimSpace(lhs), name+"(") {
					return true
				}
			}
		}
		for _, b := range f.Blocks {
			for _, in := range b.Instrs {
				switch x := in.(type) {
				case ssa.CallInstruction:
					if sc := x.Common().StaticCallee(); sc != nil && strings.HasPrefix(fnPkgPath(sc), ModPath) {
						if visit(sc) {
							return true
						}
					}
				case *ssa.MakeClosure:
					if visit(x.Fn.(*ssa.Function)) {
						return true
					}
				}
			}
		}
		return false
	}
	res := visit(callee)
	ghostAssignMu.Lock()
	ghostAssignCache[key] = res
	ghostAssignMu.Unlock()
	return res
}

// mapFieldPrivate decides syntactically (over the SSA of the whole package) that the map stored in field `field`
// of struct type structT, and the backing arrays of the slices stored in that map, are reachable only through
// the field: the field is only ever assigned a map made on the spot; the loaded map value is used only for
// lookup, update, delete, range and len; a slice taken from the map (by lookup or range) flows only through
// reslicing, append (as destination), phi, len/cap, element access, comparison with nil and back into the same
// map. The elements themselves may escape. Anything else is reported.
func (c *VCtx) mapFieldPrivate(structT types.Type, field string) (bool, string) {
	st := deref0(structT)
	named, ok := st.(*types.Named)
	if !ok || named.Obj().Pkg() == nil {
		return false, "not a named struct type"
	}
	named = named.Origin()
	sp := c.eng.SPkgs[named.Obj().Pkg().Path()]
	if sp == nil {
		return false, "package not loaded"
	}
	isField := func(x types.Type, idx int) bool {
		n, ok := deref0(x).(*types.Named)
		if !ok || n.Origin() != named {
			return false
		}
		stt, ok := n.Underlying().(*types.Struct)
		return ok && idx < stt.NumFields() && stt.Field(idx).Name() == field
	}
	var bad []string
	report := func(fn *ssa.Function, in ssa.Instruction, what string) {
		bad = append(bad, fmt.Sprintf("%s: %s (%s)", fn.Name(), what, c.eng.pos(in.Pos())))
	}
	mapVals := map[ssa.Value]bool{}
	sliceVals := map[ssa.Value]bool{}
	var work []ssa.Value
	addMap := func(v ssa.Value) {
		if !mapVals[v] {
			mapVals[v] = true
			work = append(work, v)
		}
	}
	addSlice := func(v ssa.Value) {
		if !sliceVals[v] {
			sliceVals[v] = true
			work = append(work, v)
		}
	}
	isNil := func(v ssa.Value) bool {
		k, ok := v.(*ssa.Const)
		return ok && k.Value == nil
	}
	var scan func(fn *ssa.Function)
	seenFn := map[*ssa.Function]bool{}
	scan = func(fn *ssa.Function) {
		if fn == nil || seenFn[fn] {
			return
		}
		seenFn[fn] = true
		for _, b := range fn.Blocks {
			for _, in := range b.Instrs {
				switch x := in.(type) {
				case *ssa.Field:
					if isField(x.X.Type(), x.Field) {
						report(fn, in, "the struct is copied by value")
					}
				case *ssa.FieldAddr:
					if !isField(x.X.Type(), x.Field) {
						continue
					}
					for _, r := range *x.Referrers() {
						switch y := r.(type) {
						case *ssa.UnOp:
							addMap(y)
						case *ssa.Store:
							if y.Addr != ssa.Value(x) {
								report(fn, r, "the address of the field is stored")
							} else if _, isMake := y.Val.(*ssa.MakeMap); !isMake {
								report(fn, r, "the field is assigned something other than a map made on the spot")
							} else if n := func() int {
								n := 0
								for _, u := range *y.Val.Referrers() {
									if _, dbg := u.(*ssa.DebugRef); !dbg {
										n++
									}
								}
								return n
							}(); n != 1 {
								report(fn, r, "the new map is used elsewhere too")
							}
						case *ssa.DebugRef:
						default:
							report(fn, r, "the address of the field escapes")
						}
					}
				}
			}
		}
		for _, an := range fn.AnonFuncs {
			scan(an)
		}
	}
	for _, m := range sp.Members {
		switch x := m.(type) {
		case *ssa.Function:
			scan(x)
		case *ssa.Type:
			for _, t := range []types.Type{x.Type(), types.NewPointer(x.Type())} {
				ms := c.eng.Prog.MethodSets.MethodSet(t)
				for i := 0; i < ms.Len(); i++ {
					scan(c.eng.Prog.MethodValue(ms.At(i)))
				}
			}
			if n, ok := x.Type().(*types.Named); ok {
				for i := 0; i < n.NumMethods(); i++ {
					scan(c.eng.Prog.FuncValue(n.Method(i)))
				}
			}
		}
	}
	if len(seenFn) == 0 {
		return false, "no function bodies found"
	}
	var post []func()
	for len(work) > 0 {
		v := work[len(work)-1]
		work = work[:len(work)-1]
		fn := v.Parent()
		for _, r := range *v.Referrers() {
			if _, dbg := r.(*ssa.DebugRef); dbg {
				continue
			}
			if mapVals[v] {
				switch y := r.(type) {
				case *ssa.Lookup:
					if y.X != v {
						report(fn, r, "the map is used as a key")
					} else if y.CommaOk {
						for _, e := range *y.Referrers() {
							if ex, ok := e.(*ssa.Extract); ok && ex.Index == 0 {
								addSlice(ex)
							}
						}
					} else {
						addSlice(y)
					}
				case *ssa.MapUpdate:
					if y.Map != v {
						report(fn, r, "the map is stored into another map")
					} else if !sliceVals[y.Value] && !isNil(y.Value) {
						// the value must come from the map's own lists; checked again after the fixpoint
						yy, ff := y, fn
						post = append(post, func() {
							if !sliceVals[yy.Value] && !isNil(yy.Value) {
								report(ff, yy, "a slice from elsewhere is stored into the map")
							}
						})
					}
				case *ssa.Range:
					for _, nx := range *y.Referrers() {
						if n, ok := nx.(*ssa.Next); ok {
							for _, e := range *n.Referrers() {
								if ex, ok := e.(*ssa.Extract); ok && ex.Index == 2 {
									addSlice(ex)
								}
							}
						}
					}
				case *ssa.Call:
					if bi, ok := y.Call.Value.(*ssa.Builtin); !ok || (bi.Name() != "len" && bi.Name() != "delete") {
						report(fn, r, "the map is passed to a call")
					}
				default:
					report(fn, r, fmt.Sprintf("the map value is used by %T", r))
				}
				continue
			}
			// a slice taken from the map
			switch y := r.(type) {
			case *ssa.IndexAddr:
				for _, e := range *y.Referrers() {
					switch z := e.(type) {
					case *ssa.UnOp, *ssa.DebugRef:
					case *ssa.Store:
						if z.Addr != ssa.Value(y) {
							report(fn, e, "the address of a list element is stored")
						}
					default:
						report(fn, e, "the address of a list element escapes")
					}
				}
			case *ssa.Slice:
				addSlice(y)
			case *ssa.Phi:
				addSlice(y)
				yy, ff := y, fn
				post = append(post, func() {
					for _, e := range yy.Edges {
						if !sliceVals[e] && !isNil(e) {
							report(ff, yy, "a list variable is merged with a slice from elsewhere")
						}
					}
				})
			case *ssa.MapUpdate:
				if y.Value != v || !mapVals[y.Map] {
					report(fn, r, "a list is stored into another map or used as a key")
				}
			case *ssa.Range, *ssa.BinOp:
			case *ssa.Call:
				bi, ok := y.Call.Value.(*ssa.Builtin)
				switch {
				case ok && (bi.Name() == "len" || bi.Name() == "cap"):
				case ok && bi.Name() == "append" && y.Call.Args[0] == v:
					addSlice(y)
				default:
					report(fn, r, "a list is passed to a call")
				}
			default:
				report(fn, r, fmt.Sprintf("a list taken from the map is used by %T", r))
			}
		}
	}
	for _, f := range post {
		f()
	}
	if len(mapVals) == 0 {
		return false, "the field is never read"
	}
	return len(bad) == 0, strings.Join(bad, "; ")
}

// pkgFunctions lists every function body of a package: functions, methods (also of generic types), closures.
func (c *VCtx) pkgFunctions(sp *ssa.Package) []*ssa.Function {
	var out []*ssa.Function
	seen := map[*ssa.Function]bool{}
	var add func(fn *ssa.Function)
	add = func(fn *ssa.Function) {
		if fn == nil || seen[fn] {
			return
		}
		seen[fn] = true
		out = append(out, fn)
		for _, an := range fn.AnonFuncs {
			add(an)
		}
	}
	for _, m := range sp.Members {
		switch x := m.(type) {
		case *ssa.Function:
			add(x)
		case *ssa.Type:
			for _, t := range []types.Type{x.Type(), types.NewPointer(x.Type())} {
				ms := c.eng.Prog.MethodSets.MethodSet(t)
				for i := 0; i < ms.Len(); i++ {
					add(c.eng.Prog.MethodValue(ms.At(i)))
				}
			}
			if n, ok := x.Type().(*types.Named); ok {
				for i := 0; i < n.NumMethods(); i++ {
					add(c.eng.Prog.FuncValue(n.Method(i)))
				}
			}
		}
	}
	return out
}

// innerDiscipline decides syntactically that the object stored in a field is a private inner object: the field is
// only assigned the fresh result of a function of the same package; its loaded value is used only as the receiver
// of static method calls (or compared with nil); the mutating methods named in the clause are called on it only
// from the functions named in the clause.
func (c *VCtx) innerDiscipline(structT types.Type, is InnerSpec) (bool, string) {
	named, ok := deref0(structT).(*types.Named)
	if !ok || named.Obj().Pkg() == nil {
		return false, "not a named struct type"
	}
	named = named.Origin()
	sp := c.eng.SPkgs[named.Obj().Pkg().Path()]
	if sp == nil {
		return false, "package not loaded"
	}
	var bad []string
	loads := 0
	nonDebug := func(v ssa.Value) []ssa.Instruction {
		var out []ssa.Instruction
		for _, r := range *v.Referrers() {
			if _, dbg := r.(*ssa.DebugRef); !dbg {
				out = append(out, r)
			}
		}
		return out
	}
	for _, fn := range c.pkgFunctions(sp) {
		report := func(in ssa.Instruction, what string) {
			bad = append(bad, fmt.Sprintf("%s: %s (%s)", FuncKey(fn), what, c.eng.pos(in.Pos())))
		}
		for _, b := range fn.Blocks {
			for _, in := range b.Instrs {
				var xt types.Type
				var idx int
				switch x := in.(type) {
				case *ssa.Field:
					xt, idx = x.X.Type(), x.Field
				case *ssa.FieldAddr:
					xt, idx = x.X.Type(), x.Field
				default:
					continue
				}
				n, ok := deref0(xt).(*types.Named)
				if !ok || n.Origin() != named {
					continue
				}
				stt, ok := n.Underlying().(*types.Struct)
				if !ok || idx >= stt.NumFields() || stt.Field(idx).Name() != is.Field {
					continue
				}
				fa, isAddr := in.(*ssa.FieldAddr)
				if !isAddr {
					report(in, "the struct is copied by value")
					continue
				}
				for _, r := range nonDebug(fa) {
					switch y := r.(type) {
					case *ssa.Store:
						call, isCall := y.Val.(*ssa.Call)
						if y.Addr != ssa.Value(fa) {
							report(r, "the address of the field is stored")
						} else if !isCall || call.Call.StaticCallee() == nil || call.Call.StaticCallee().Pkg != nil && call.Call.StaticCallee().Pkg != sp {
							report(r, "the field is assigned something other than the fresh result of a constructor of this package")
						} else if len(nonDebug(call)) != 1 {
							report(r, "the new inner object is used elsewhere too")
						}
					case *ssa.UnOp:
						loads++
						for _, u := range nonDebug(y) {
							switch z := u.(type) {
							case *ssa.BinOp:
							case *ssa.Call:
								callee := z.Call.StaticCallee()
								if callee == nil || len(z.Call.Args) == 0 || z.Call.Args[0] != ssa.Value(y) || callee.Signature.Recv() == nil {
									report(u, "the inner object is passed to a call")
									continue
								}
								for i, a := range z.Call.Args {
									if i > 0 && a == ssa.Value(y) {
										report(u, "the inner object is passed as an argument")
									}
								}
								for _, mname := range is.Mutators {
									if strings.SplitN(callee.Name(), "[", 2)[0] == mname && !strings.Contains(" "+strings.Join(is.From, " ")+" ", " "+FuncKey(fn)+" ") {
										report(u, "calls "+mname+" on the inner object but is not one of the functions allowed to")
									}
								}
							default:
								report(u, fmt.Sprintf("the inner object is used by %T", u))
							}
						}
					default:
						report(r, "the address of the field escapes")
					}
				}
			}
		}
	}
	if loads == 0 {
		return false, "the field is never read"
	}
	return len(bad) == 0, strings.Join(bad, "; ")
}
