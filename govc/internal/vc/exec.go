package vc

import (
	"os"
	"runtime/debug"
	"fmt"
	"go/constant"
	"go/token"
	"go/types"
	"math/big"
	"sort"
	"strings"

	"golang.org/x/tools/go/ssa"
)

// ---------- values ----------

// Val is a symbolic value: *Term, Tuple, *Loc or *FnVal.
type Val interface{}

type Tuple []Val

// Loc is a pointer to a non-struct location, kept at the meta level.
type Loc struct {
	Kind string // "field" (heap[Base]), "elem" (E heap[Arr][Idx]), "cell" (C heap[Base])
	Heap string
	Sort Sort // sort of the pointee
	Base *Term
	Idx  *Term // elem only
	GT   types.Type
}

// FnVal is a statically known function value.
type FnVal struct {
	Fn    *ssa.Function
	Binds []Val
	term  *Term
}

// unsupported is raised (via panic) when a construct is outside the subset.
type unsupported struct{ msg string }

func unsup(f string, a ...any) { panic(unsupported{fmt.Sprintf(f, a...)}) }

// ---------- state ----------

type State struct {
	pc    *Term
	heaps map[string]*Term
	epoch int
	held  map[string]*heldLock
	cells map[string]Val // known contents of local cells (captured variables), by cell term
	lmHeld bool         // the function-local monitor lock is held
}

type heldLock struct {
	obj     *Term
	specs   []*monitorRef
	write   bool
	tryCond *Term // set by TryLock: the lock is held only if this is true
}

func (s *State) clone() *State {
	n := &State{pc: s.pc, heaps: make(map[string]*Term, len(s.heaps)), epoch: s.epoch, held: map[string]*heldLock{}, cells: map[string]Val{}, lmHeld: s.lmHeld}
	for k, v := range s.heaps {
		n.heaps[k] = v
	}
	for k, v := range s.cells {
		n.cells[k] = v
	}
	for k, v := range s.held {
		n.held[k] = v
	}
	return n
}

// ---------- verification context ----------

type VCtx struct {
	eng       *Engine
	top       *ssa.Function
	contract  *FuncContract
	props     []string
	decls     []string
	declSet   map[string]bool
	facts     []factRec
	nfresh    int
	heapSorts map[string]Sort
	obls      []*Obligation
	depth     int
	oblCount  map[string]int
	entry     *State
	embedded  map[string]*embedInfo // Ref term string -> how it was built
	specFnsDeclared bool
	oblPrefix string
	me        *Term // invocation identity (ghost)
	actionOld *State
	csCount   int
	goCount   int
	closeCount int
	heldAtEntry *Term
	published map[string]bool
	freshObjs []*Term
	mineCache *Term
	mineCacheN int
	freshKeys []*Term           // objects and channels allocated by this invocation (possible ghost-map keys)
	allFresh  []*Term           // every struct object allocated by this invocation
	storedIn  map[string][]Val  // values stored into a not yet published fresh object / local cell (published with it)
	pubCells  map[string]*Loc // captured variables of the closure under verification that follow the publication discipline
	curState  *State // state in which monitorIsReceivers resolves lock paths
	assertOld *State
	assertExtra map[string]Val
	exemptFresh []*Term // set while translating a global clause to be proved: unpublished fresh objects
	lastCSEntry *State // state right after the most recent lock acquisition (csold)
	localMon  *localMonState
	writesZero bool
	relPkgs   []string
	gmaps     []*ghostMapInfo
	usesAtomics bool
	localAtomics map[string]bool
	atomicBefore *State
	atomicCount int
	lastAtomicRet Val
	curFrame  *Frame
	rootFrame *Frame // the function under verification
	pointsHit map[string]bool
	curSelectChans []*Term
	curSelectBlocking bool
	envVals   []InputSpec // values produced by the environment (results of modelled external calls)
	lastSelect *selectInfo
}

type embedInfo struct {
	base  *Term
	path  []string
	typ   types.Type // type of the embedded object
	chain []embedLink // owners from outermost to innermost; chain[i] owns path[i:]
}

type embedLink struct {
	term *Term
	typ  types.Type
}

func (e *Engine) newCtx(fn *ssa.Function, c *FuncContract) *VCtx {
	ctx := &VCtx{eng: e, top: fn, contract: c, declSet: map[string]bool{}, heapSorts: map[string]Sort{},
		oblCount: map[string]int{}, embedded: map[string]*embedInfo{}, localAtomics: map[string]bool{}}
	if c != nil {
		ctx.props = c.Props
	}
	return ctx
}

func sym(s string) string {
	ok := true
	for _, c := range s {
		if !(c == '_' || c == '!' || c == '.' || (c >= 'a' && c <= 'z') || (c >= 'A' && c <= 'Z') || (c >= '0' && c <= '9')) {
			ok = false
			break
		}
	}
	if ok && s != "" {
		return s
	}
	return "|" + strings.ReplaceAll(s, "|", "_") + "|"
}

func (c *VCtx) declare(name string, sort Sort) *Term {
	s := sym(name)
	if !c.declSet[s] {
		c.declSet[s] = true
		c.decls = append(c.decls, fmt.Sprintf("(declare-const %s %s)", s, sort))
	}
	return T(sort, s)
}

func (c *VCtx) declareFun(name string, args []Sort, ret Sort) string {
	s := sym(name)
	if !c.declSet[s] {
		c.declSet[s] = true
		var as []string
		for _, a := range args {
			as = append(as, string(a))
		}
		c.decls = append(c.decls, fmt.Sprintf("(declare-fun %s (%s) %s)", s, strings.Join(as, " "), ret))
	}
	return s
}

func (c *VCtx) fresh(prefix string, sort Sort) *Term {
	c.nfresh++
	return c.declare(fmt.Sprintf("%s!%d", prefix, c.nfresh), sort)
}

func (c *VCtx) fact(t *Term) {
	if t == nil || t.S == "true" {
		return
	}
	c.facts = append(c.facts, factRec{S: t.S, syms: symsOf(t.S)})
}

// defFact adds a definitional fact: it only constrains the fresh symbol def (a conservative extension),
// so obligations that do not mention def can leave it out.
func (c *VCtx) defFact(def *Term, t *Term) {
	c.facts = append(c.facts, factRec{S: t.S, syms: symsOf(t.S), defines: def.S})
}

type factRec struct {
	S       string
	syms    []string
	defines string
	link    bool // relates two versions of the same heap (rely rules, monotonicity): always kept
	rel     []string // symbols that decide relevance in the focused variant (nil: syms)
}

// factG adds the fact guard => body; only the body's symbols count for relevance.
func (c *VCtx) factG(guard, body *Term) {
	t := Implies(guard, body)
	if t.S == "true" {
		return
	}
	c.facts = append(c.facts, factRec{S: t.S, syms: symsOf(t.S), rel: symsOf(body.S)})
}

// linkFact adds a fact that ties a havocked heap version to its predecessor.
func (c *VCtx) linkFact(t *Term) {
	if t == nil || t.S == "true" {
		return
	}
	c.facts = append(c.facts, factRec{S: t.S, syms: symsOf(t.S), link: true})
}

var smtBuiltins = map[string]bool{"and": true, "or": true, "not": true, "ite": true, "select": true, "store": true, "forall": true, "exists": true,
	"true": true, "false": true, "mod": true, "div": true, "abs": true, "as": true, "const": true, "Array": true, "Int": true, "Bool": true, "Ref": true,
	"Any": true, "Slice": true, "Str": true, "null": true, "zero_Any": true, "nil_slice": true, "let": true, "pattern": true, "distinct": true,
	"mk-slice": true, "s-arr": true, "s-off": true, "s-len": true, "s-cap": true, "mk-str": true, "str-len": true, "slen": true, "str-data": true,
	"gorem": true, "godiv": true, "wrap_s": true, "wrap_u": true, "pow2": true, "shr": true, "streq": true, "hasprefix": true, "sidx": true, "card": true, "fin": true, "emptyset": true}

// hubSymbol: symbols that occur almost everywhere and therefore say nothing about relevance.
func hubSymbol(s string) bool {
	return strings.Contains(s, "H!F:sync/atomic.") || strings.Contains(s, "G:alloc") || strings.Contains(s, "G:now") || strings.HasPrefix(s, "now!") ||
		s == "closedAt" || s == "me" || strings.HasPrefix(s, "pc!") || strings.HasPrefix(s, "q!")
}

// symsOf lists the user symbols of an SMT term string.
func symsOf(s string) []string {
	seen := map[string]bool{}
	var out []string
	i := 0
	for i < len(s) {
		c := s[i]
		switch {
		case c == '|':
			j := strings.IndexByte(s[i+1:], '|')
			tok := s[i : i+j+2]
			if !seen[tok] {
				seen[tok] = true
				out = append(out, tok)
			}
			i += j + 2
		case c == '(' || c == ')' || c == ' ' || c == '\n' || c == '\t':
			i++
		default:
			j := i
			for j < len(s) && !strings.ContainsRune("() \n\t|", rune(s[j])) {
				j++
			}
			tok := s[i:j]
			i = j
			if tok == "" || smtBuiltins[tok] || tok[0] == ':' || (tok[0] >= '0' && tok[0] <= '9') || tok == "=" || tok == "=>" || tok == "<" || tok == "<=" || tok == ">" || tok == ">=" || tok == "+" || tok == "-" || tok == "*" || tok == "!" || tok == "_" {
				continue
			}
			if !seen[tok] {
				seen[tok] = true
				out = append(out, tok)
			}
		}
	}
	return out
}

// sliceFacts returns the facts relevant to the given goal symbols (cone of influence).
func (c *VCtx) sliceFacts(n int, seeds []string) []*factRec {
	cone := map[string]bool{}
	for _, s := range seeds {
		cone[s] = true
	}
	inc := make([]bool, n)
	// definitions by defined symbol (a non-definitional fact about a named value is relevant when the
	// value's definition mentions relevant symbols)
	defs := map[string][]int{}
	for i := 0; i < n; i++ {
		if d := c.facts[i].defines; d != "" {
			defs[d] = append(defs[d], i)
		}
	}
	var viaDef func(s string, depth int) bool
	viaDef = func(s string, depth int) bool {
		if depth > 4 {
			return false
		}
		for _, i := range defs[s] {
			for _, t := range c.facts[i].syms {
				if t == s {
					continue
				}
				if cone[t] || viaDef(t, depth+1) {
					return true
				}
			}
		}
		return false
	}
	for changed := true; changed; {
		changed = false
		for i := 0; i < n; i++ {
			if inc[i] {
				continue
			}
			f := &c.facts[i]
			take := false
			if f.defines != "" {
				take = cone[f.defines]
			} else {
				for _, s := range f.syms {
					if cone[s] {
						take = true
						break
					}
				}
				if !take {
					for _, s := range f.syms {
						if len(defs[s]) > 0 && viaDef(s, 0) {
							take = true
							break
						}
					}
				}
				if len(f.syms) == 0 {
					take = true
				}
			}
			if take {
				inc[i] = true
				changed = true
				for _, s := range f.syms {
					cone[s] = true
				}
			}
		}
	}
	var out []*factRec
	for i := 0; i < n; i++ {
		if inc[i] {
			out = append(out, &c.facts[i])
		}
	}
	return out
}

// name introduces a named constant for a large term.
func (c *VCtx) name(prefix string, t *Term) *Term {
	if len(t.S) < 60 && !(strings.HasPrefix(t.S, "(ite ") && strings.HasPrefix(string(t.Sort), "(Array")) {
		// (merged heaps are always named: an ite inside a quantifier pattern makes z3 drop the pattern)
		return t
	}
	n := c.fresh(prefix, t.Sort)
	n.GT = t.GT
	c.defFact(n, Eq(n, t))
	return n
}

func (c *VCtx) heapName(name string, epoch int) string {
	return fmt.Sprintf("H!%s!%d", name, epoch)
}

// heap returns the current version of a heap in state st.
func (c *VCtx) heap(st *State, name string, sort Sort) *Term {
	if old, ok := c.heapSorts[name]; ok && old != sort {
		unsup("heap %s used at two sorts %s / %s", name, old, sort)
	}
	c.heapSorts[name] = sort
	if t, ok := st.heaps[name]; ok {
		return t
	}
	t := c.declare(c.heapName(name, st.epoch), sort)
	if strings.HasPrefix(name, "G:writes:") && st.epoch == 0 && !c.declSet["wz:"+t.S] {
		c.declSet["wz:"+t.S] = true
		c.facts0(T(SBool, fmt.Sprintf("(forall ((r Ref)) (! (= (select %s r) 0) :pattern ((select %s r))))", t.S, t.S)))
	}
	if !c.declSet["wf:"+t.S] {
		c.declSet["wf:"+t.S] = true
		c.heapWellFormed(st, name, t)
	}
	return t
}

// heapWellFormed: every reference stored in an unconstrained heap version denotes an object that already
// exists at that moment (so objects allocated later are different from everything reachable now).
func (c *VCtx) heapWellFormed(st *State, name string, h *Term) {
	if name == "G:alloc" || (strings.HasPrefix(name, "M:") && !strings.HasPrefix(name, "M:val:")) {
		return
	}
	if strings.HasPrefix(name, "G:") {
		// ghost maps whose values are objects (not invocation identities): their entries denote existing objects
		ok := false
		if c.gmaps != nil {
			for _, g := range c.gmaps {
				if g.heap == name && g.kind != "owned" {
					ok = true
				}
			}
		}
		if !ok {
			return
		}
	}
	k, v := arrParts(h.Sort)
	if k != SRef {
		return
	}
	var alloc *Term
	if a, ok := st.heaps["G:alloc"]; ok {
		alloc = a
	} else {
		alloc = c.declare(c.heapName("G:alloc", st.epoch), ArrSort(SRef, SBool))
		c.heapSorts["G:alloc"] = ArrSort(SRef, SBool)
	}
	okRef := func(x string) string { return fmt.Sprintf("(or (= %s null) (select %s %s))", x, alloc.S, x) }
	switch {
	case v == SRef:
		c.defFact(h, T(SBool, fmt.Sprintf("(forall ((r Ref)) (! %s :pattern ((select %s r))))", okRef(fmt.Sprintf("(select %s r)", h.S)), h.S)))
	case v == SSlice:
		c.defFact(h, T(SBool, fmt.Sprintf("(forall ((r Ref)) (! %s :pattern ((select %s r))))", okRef(fmt.Sprintf("(s-arr (select %s r))", h.S)), h.S)))
	case strings.HasPrefix(name, "M:val:") && strings.HasPrefix(string(v), "(Array "):
		// the values stored in maps are existing objects
		js, vs := arrParts(v)
		if vs == SRef {
			c.defFact(h, T(SBool, fmt.Sprintf("(forall ((r Ref) (j %s)) (! %s :pattern ((select (select %s r) j))))", js, okRef(fmt.Sprintf("(select (select %s r) j)", h.S)), h.S)))
		}
	case v == ArrSort(SInt, SRef):
		c.defFact(h, T(SBool, fmt.Sprintf("(forall ((r Ref) (i Int)) (! %s :pattern ((select (select %s r) i))))", okRef(fmt.Sprintf("(select (select %s r) i)", h.S)), h.S)))
	case v == ArrSort(SInt, SSlice):
		c.defFact(h, T(SBool, fmt.Sprintf("(forall ((r Ref) (i Int)) (! %s :pattern ((select (select %s r) i))))", okRef(fmt.Sprintf("(s-arr (select (select %s r) i))", h.S)), h.S)))
	}
}

func (c *VCtx) setHeap(st *State, name string, t *Term) {
	st.heaps[name] = c.name("h", t)
}

// havocHeap replaces a heap by a fresh version.
func (c *VCtx) havocHeap(st *State, name string) *Term {
	sort, ok := c.heapSorts[name]
	if !ok {
		return nil
	}
	t := c.fresh("H!"+name, sort)
	if os.Getenv("GOVC_DEBUG") != "" && strings.HasPrefix(name, "C:") {
		fmt.Fprintf(os.Stderr, "havocHeap %s -> %s\n%s\n", name, t.S, debug.Stack())
	}
	c.heapWellFormed(st, name, t)
	st.heaps[name] = t
	if strings.HasPrefix(name, "C:") {
		st.cells = map[string]Val{}
	}
	return t
}

func (c *VCtx) havocAll(st *State) {
	if os.Getenv("GOVC_DEBUG") != "" {
		fmt.Fprintf(os.Stderr, "havocAll\n%s\n", debug.Stack())
	}
	c.nfresh++
	st.epoch = c.nfresh
	st.heaps = map[string]*Term{}
	st.cells = map[string]Val{}
}

// ---------- obligations ----------

func (c *VCtx) oblName(kind string) string {
	base := c.oblPrefix + kind
	c.oblCount[base]++
	if n := c.oblCount[base]; n > 1 {
		return fmt.Sprintf("%s~%d", base, n)
	}
	return base
}

// prove emits an obligation: facts so far and guard imply goal.
func (c *VCtx) prove(kind, desc string, guard, goal *Term, vars map[string]string) {
	if goal.S == "true" || guard.S == "false" {
		// trivially discharged; still counted as an obligation with a constant query
	}
	var sb strings.Builder
	sb.WriteString(c.eng.preludeFor(c))
	for _, d := range c.decls {
		sb.WriteString(d)
		sb.WriteString("\n")
	}
	head := sb.String()
	seeds := append(symsOf(guard.S), symsOf(goal.S)...)
	facts := c.sliceFacts(len(c.facts), seeds)
	tail := "(assert " + guard.S + ")\n(assert (not " + goal.S + "))\n(check-sat)\n"
	var full, focus strings.Builder
	full.WriteString(head)
	focus.WriteString(head)
	// focused variant: quantified assumptions are kept only if they share a (non-hub) symbol with the goal
	q := map[string]bool{}
	for _, s := range seeds {
		if !hubSymbol(s) {
			q[s] = true
		}
	}
	dropped := 0
	for _, fr := range facts {
		f := fr.S
		full.WriteString("(assert " + f + ")\n")
		if !fr.link && fr.defines == "" && (strings.Contains(f, "(forall ") || strings.Contains(f, "(exists ")) {
			rel := false
			rs := fr.rel
			if rs == nil {
				rs = fr.syms
			}
			for _, s := range rs {
				if q[s] {
					rel = true
					break
				}
			}
			if !rel {
				dropped++
				continue
			}
		}
		focus.WriteString("(assert " + f + ")\n")
	}
	full.WriteString(tail)
	focus.WriteString(tail)
	name := shortPkg(fnPkgPath(c.top)) + "." + FuncKey(c.top) + "#" + c.oblName(kind)
	o := &Obligation{Name: name, Props: c.props, Kind: kind, Func: FuncKey(c.top), SMT: full.String(), Desc: desc, Vars: vars}
	if dropped > 0 {
		o.SMTFocus = focus.String()
	}
	c.obls = append(c.obls, o)
}

// ---------- sorts and types ----------

func sortOf(t types.Type) Sort {
	switch u := t.Underlying().(type) {
	case *types.Basic:
		switch {
		case u.Info()&types.IsBoolean != 0:
			return SBool
		case u.Info()&types.IsInteger != 0:
			return SInt
		case u.Info()&types.IsString != 0:
			return SStr
		case u.Kind() == types.UnsafePointer:
			return SRef
		case u.Kind() == types.UntypedNil:
			return SRef
		case u.Info()&types.IsFloat != 0:
			return "Real"
		}
	case *types.Pointer, *types.Chan, *types.Signature, *types.Interface, *types.Map:
		if _, ok := t.(*types.TypeParam); ok {
			return SAny
		}
		return SRef
	case *types.Slice:
		return SSlice
	case *types.Array:
		return SRef
	case *types.Struct:
		return SRef // struct values are handled through their address
	}
	if _, ok := t.(*types.TypeParam); ok {
		return SAny
	}
	unsup("no sort for type %s", t)
	return ""
}

func intInfo(t types.Type) (bits int, signed bool, ok bool) {
	b, isB := t.Underlying().(*types.Basic)
	if !isB || b.Info()&types.IsInteger == 0 {
		return 0, false, false
	}
	switch b.Kind() {
	case types.Int8:
		return 8, true, true
	case types.Int16:
		return 16, true, true
	case types.Int32:
		return 32, true, true
	case types.Int, types.Int64, types.UntypedInt, types.UntypedRune:
		return 64, true, true
	case types.Uint8:
		return 8, false, true
	case types.Uint16:
		return 16, false, true
	case types.Uint32:
		return 32, false, true
	case types.Uint, types.Uint64, types.Uintptr:
		return 64, false, true
	}
	return 0, false, false
}

func pow2str(n int) string {
	// n in {7,8,15,16,31,32,63,64}
	return new(big.Int).Lsh(big.NewInt(1), uint(n)).String()
}

// rangeFact returns the in-range predicate for an integer-typed term.
func rangeFact(t *Term, ty types.Type) *Term {
	bits, signed, ok := intInfo(ty)
	if !ok {
		return True
	}
	if signed {
		return And(Ge(t, IntLitS("-"+pow2str(bits-1))), Lt(t, IntLitS(pow2str(bits-1))))
	}
	return And(Ge(t, IntLit(0)), Lt(t, IntLitS(pow2str(bits))))
}

func wrap(t *Term, ty types.Type) *Term {
	bits, signed, ok := intInfo(ty)
	if !ok {
		return t
	}
	if signed {
		return T(SInt, fmt.Sprintf("(wrap_s %s %s)", t.S, pow2str(bits-1)))
	}
	return T(SInt, fmt.Sprintf("(wrap_u %s %s)", t.S, pow2str(bits)))
}

// typeKey gives a stable name for a named struct type (generic origin, no type args).
func typeKey(t types.Type) string {
	if p, ok := t.(*types.Pointer); ok {
		t = p.Elem()
	}
	if n, ok := t.(*types.Named); ok {
		n = n.Origin()
		if n.Obj().Pkg() != nil {
			return shortPkg(n.Obj().Pkg().Path()) + "." + n.Obj().Name()
		}
		return n.Obj().Name()
	}
	if a, ok := t.(*types.Alias); ok {
		return typeKey(types.Unalias(a))
	}
	return strings.ReplaceAll(t.String(), " ", "")
}

func fieldHeapName(structT types.Type, field string) string {
	return "F:" + typeKey(structT) + "." + field
}

func elemHeapName(es Sort) string { return "E:" + string(es) }
func cellHeapName(es Sort) string { return "C:" + string(es) }

// ---------- frames ----------

type Frame struct {
	lastIter *Term // iterator of the most recently entered range-over-map loop
	ctx      *VCtx
	fn       *ssa.Function
	env      map[ssa.Value]Val
	parent   *Frame
	defers   []*deferred
	contract *FuncContract
	top      bool
	entry    *State
	loops    map[*ssa.BasicBlock]*loopInfo
	dbg      map[string][]dbgBind
	retVals  []retPath
	args     []Val
	curBlock *ssa.BasicBlock
	curIdx   int
	unlocks  int
	unlockSites map[token.Pos]int
	gos      int
	closes   int
	recvs    int
	makechans int
	closures int
	csEntry  *State // state right after the most recent lock acquisition performed by this frame
	callbacks int
	invokes  int
}

type deferred struct {
	guard *Term
	call  *ssa.CallCommon
	fr    *Frame
	block *ssa.BasicBlock // where the defer statement is
}

type dbgBind struct {
	val    ssa.Value
	block  *ssa.BasicBlock
	idx    int
	isAddr bool
}

type retPath struct {
	st    *State
	val   Val
	block *ssa.BasicBlock
	pos   token.Pos
}

type inEdge struct {
	from *ssa.BasicBlock
	st   *State
}

type loopInfo struct {
	header  *ssa.BasicBlock
	ordinal int
	body    map[*ssa.BasicBlock]bool
	pos     token.Pos
}

func analyzeLoops(fn *ssa.Function) map[*ssa.BasicBlock]*loopInfo {
	loops := map[*ssa.BasicBlock]*loopInfo{}
	for _, u := range fn.Blocks {
		for _, h := range u.Succs {
			if h.Dominates(u) {
				li := loops[h]
				if li == nil {
					li = &loopInfo{header: h, body: map[*ssa.BasicBlock]bool{h: true}}
					loops[h] = li
				}
				// add nodes reaching u without passing through h
				var stack []*ssa.BasicBlock
				if !li.body[u] {
					li.body[u] = true
					stack = append(stack, u)
				}
				for len(stack) > 0 {
					x := stack[len(stack)-1]
					stack = stack[:len(stack)-1]
					for _, p := range x.Preds {
						if !li.body[p] {
							li.body[p] = true
							stack = append(stack, p)
						}
					}
				}
			}
		}
	}
	var ls []*loopInfo
	for _, li := range loops {
		li.pos = token.NoPos
		for b := range li.body {
			for _, in := range b.Instrs {
				if _, isDbg := in.(*ssa.DebugRef); isDbg {
					continue
				}
				if p := in.Pos(); p.IsValid() && (!li.pos.IsValid() || p < li.pos) {
					li.pos = p
				}
			}
		}
		ls = append(ls, li)
	}
	sort.Slice(ls, func(i, j int) bool {
		if ls[i].pos != ls[j].pos {
			return ls[i].pos < ls[j].pos
		}
		return ls[i].header.Index < ls[j].header.Index
	})
	for i, li := range ls {
		li.ordinal = i + 1
	}
	return loops
}

func (c *VCtx) newFrame(fn *ssa.Function, parent *Frame) *Frame {
	fr := &Frame{ctx: c, fn: fn, env: map[ssa.Value]Val{}, parent: parent, loops: analyzeLoops(fn), dbg: map[string][]dbgBind{}}
	fr.contract = c.eng.ContractOf(fn)
	if o := fn.Origin(); o != nil && o != fn {
		// instantiation wrapper of a generic function: the annotations belong to the generic body it calls
		fr.contract = nil
	}
	for _, b := range fn.Blocks {
		for i, in := range b.Instrs {
			if d, ok := in.(*ssa.DebugRef); ok {
				if obj := d.Object(); obj != nil {
					if v, isVar := obj.(*types.Var); isVar && v.IsField() {
						continue // a field selector x.f is not a binding of a variable named f
					}
					fr.dbg[obj.Name()] = append(fr.dbg[obj.Name()], dbgBind{d.X, b, i, d.IsAddr})
				}
			}
		}
	}
	return fr
}

// rpo returns blocks in reverse postorder ignoring back edges.
func rpo(fn *ssa.Function) []*ssa.BasicBlock {
	seen := map[*ssa.BasicBlock]bool{}
	var post []*ssa.BasicBlock
	var dfs func(b *ssa.BasicBlock)
	dfs = func(b *ssa.BasicBlock) {
		seen[b] = true
		for _, s := range b.Succs {
			if !seen[s] && !s.Dominates(b) {
				dfs(s)
			}
		}
		post = append(post, b)
	}
	if len(fn.Blocks) > 0 {
		dfs(fn.Blocks[0])
	}
	for i, j := 0, len(post)-1; i < j; i, j = i+1, j-1 {
		post[i], post[j] = post[j], post[i]
	}
	return post
}

// ---------- merging ----------

func (c *VCtx) mergeVals(guards []*Term, vals []Val) Val {
	if len(vals) == 1 {
		return vals[0]
	}
	allSame := true
	for _, v := range vals[1:] {
		if !sameVal(v, vals[0]) {
			allSame = false
		}
	}
	if allSame {
		return vals[0]
	}
	switch v0 := vals[0].(type) {
	case *Term:
		res := c.asTerm(vals[len(vals)-1])
		for i := len(vals) - 2; i >= 0; i-- {
			res = Ite(guards[i], c.asTerm(vals[i]), res)
		}
		res.GT = v0.GT
		n := c.name("m", res)
		if strings.HasPrefix(string(res.Sort), "(Array ") && n != res {
			ks, vs := arrParts(res.Sort)
			// pointwise reading of a merged heap: lets quantified facts about the branches' heaps be instantiated
			// for terms that mention only the merged one
			pt := fmt.Sprintf("(select %s k)", c.asTerm(vals[len(vals)-1]).S)
			for i := len(vals) - 2; i >= 0; i-- {
				pt = fmt.Sprintf("(ite %s (select %s k) %s)", guards[i].S, c.asTerm(vals[i]).S, pt)
			}
			c.defFact(n, T(SBool, fmt.Sprintf("(forall ((k %s)) (! (= (select %s k) %s) :pattern ((select %s k))))", ks, n.S, pt, n.S)))
			if strings.HasPrefix(string(vs), "(Array ") {
				// heaps of maps / slices: also read pointwise one level down
				js, _ := arrParts(vs)
				pt2 := fmt.Sprintf("(select (select %s k) j)", c.asTerm(vals[len(vals)-1]).S)
				for i := len(vals) - 2; i >= 0; i-- {
					pt2 = fmt.Sprintf("(ite %s (select (select %s k) j) %s)", guards[i].S, c.asTerm(vals[i]).S, pt2)
				}
				c.defFact(n, T(SBool, fmt.Sprintf("(forall ((k %s) (j %s)) (! (= (select (select %s k) j) %s) :pattern ((select (select %s k) j))))", ks, js, n.S, pt2, n.S)))
			}
		}
		return n
	case Tuple:
		out := make(Tuple, len(v0))
		for k := range v0 {
			var sub []Val
			for _, v := range vals {
				sub = append(sub, v.(Tuple)[k])
			}
			out[k] = c.mergeVals(guards, sub)
		}
		return out
	case *Loc:
		// same heap & kind: merge base/idx
		for _, v := range vals {
			l, ok := v.(*Loc)
			if !ok || l.Heap != v0.Heap || l.Kind != v0.Kind {
				unsup("merge of different pointer targets")
			}
		}
		var bases, idxs []Val
		for _, v := range vals {
			bases = append(bases, v.(*Loc).Base)
			if v0.Idx != nil {
				idxs = append(idxs, v.(*Loc).Idx)
			}
		}
		nl := *v0
		nl.Base = c.mergeVals(guards, bases).(*Term)
		if v0.Idx != nil {
			nl.Idx = c.mergeVals(guards, idxs).(*Term)
		}
		return &nl
	case *FnVal:
		var ts []Val
		for _, v := range vals {
			ts = append(ts, c.asTerm(v))
		}
		return c.mergeVals(guards, ts)
	case nil:
		return nil
	}
	unsup("cannot merge values of kind %T", vals[0])
	return nil
}

func sameVal(a, b Val) bool {
	switch x := a.(type) {
	case *Term:
		y, ok := b.(*Term)
		return ok && x.S == y.S
	case *Loc:
		y, ok := b.(*Loc)
		return ok && x.Kind == y.Kind && x.Heap == y.Heap && x.Base.S == y.Base.S && ((x.Idx == nil && y.Idx == nil) || (x.Idx != nil && y.Idx != nil && x.Idx.S == y.Idx.S))
	case *FnVal:
		return a == b
	case Tuple:
		y, ok := b.(Tuple)
		if !ok || len(x) != len(y) {
			return false
		}
		for i := range x {
			if !sameVal(x[i], y[i]) {
				return false
			}
		}
		return true
	case nil:
		return b == nil
	}
	return false
}

// asTerm converts a value to an SMT term (function values become opaque refs).
func (c *VCtx) asTerm(v Val) *Term {
	switch x := v.(type) {
	case *Term:
		return x
	case *FnVal:
		if x.term == nil {
			x.term = c.fresh("fn", SRef)
			if x.Fn != nil {
				x.term.GT = x.Fn.Signature
			}
			c.fact(Not(Eq(x.term, Null)))
			c.fnTerm(x)
		}
		return x.term
	case *Loc:
		if x.Kind == "cell" {
			return x.Base
		}
		unsup("pointer to %s location escapes into data", x.Kind)
	}
	unsup("value %T has no term", v)
	return nil
}

var fnTermTable = map[*VCtx]map[string]*FnVal{}

func (c *VCtx) fnTerm(f *FnVal) {
	m := fnTermTable[c]
	if m == nil {
		m = map[string]*FnVal{}
		fnTermTable[c] = m
	}
	m[f.term.S] = f
}

func (c *VCtx) fnOfTerm(t *Term) *FnVal {
	if m := fnTermTable[c]; m != nil {
		return m[t.S]
	}
	return nil
}

func (c *VCtx) mergeStates(ins []*State) (*State, []*Term) {
	if len(ins) == 1 {
		return ins[0].clone(), []*Term{ins[0].pc}
	}
	guards := make([]*Term, len(ins))
	for i, s := range ins {
		guards[i] = s.pc
	}
	st := &State{heaps: map[string]*Term{}, held: map[string]*heldLock{}, cells: map[string]Val{}, lmHeld: true}
	for _, s := range ins {
		if !s.lmHeld {
			st.lmHeld = false
		}
	}
	for k, v := range ins[0].cells {
		same := true
		for _, s := range ins[1:] {
			if w, ok := s.cells[k]; !ok || !sameVal(v, w) {
				same = false
			}
		}
		if same {
			st.cells[k] = v
		}
	}
	st.pc = c.name("pc", Or(guards...))
	// epoch: all must agree, else take max and treat others' lazily-created heaps as base of that epoch
	st.epoch = ins[0].epoch
	names := map[string]bool{}
	for _, s := range ins {
		if s.epoch != st.epoch {
			// branches with different bases (one of them went through a call with unknown effects): a fresh base
			// for heaps nobody has mentioned yet, and every known heap merged from the branches' own versions
			c.havocAll(st)
			for k := range c.heapSorts {
				names[k] = true
			}
			break
		}
	}
	for _, s := range ins {
		for k := range s.heaps {
			names[k] = true
		}
	}
	var keys []string
	for k := range names {
		keys = append(keys, k)
	}
	sort.Strings(keys)
	for _, k := range keys {
		var vs []Val
		for _, s := range ins {
			vs = append(vs, c.heap(s, k, c.heapSorts[k]))
		}
		st.heaps[k] = c.mergeVals(guards, vs).(*Term)
	}
	// held locks: intersection
	for k, v := range ins[0].held {
		all := true
		for _, s := range ins[1:] {
			if _, ok := s.held[k]; !ok {
				all = false
			}
		}
		if all {
			st.held[k] = v
		}
	}
	return st, guards
}

// ---------- function execution ----------

// execFunction symbolically executes fn from state st; returns the merged exit state and result.
func (c *VCtx) execFunction(fr *Frame, st *State) (*State, Val) {
	fn := fr.fn
	if len(fn.Blocks) == 0 {
		unsup("function %s has no body", fn)
	}
	c.depth++
	defer func() { c.depth-- }()
	if c.depth > 12 {
		unsup("inlining depth exceeded at %s", fn)
	}
	fr.entry = st.clone()
	if fr.top && c.rootFrame == nil {
		c.rootFrame = fr
	}
	if fr.contract != nil && len(fr.contract.Assumes) > 0 {
		var args []Val
		for _, p := range fn.Params {
			args = append(args, fr.env[p])
		}
		sc := c.contractScope(fn, fr.contract, nil, args, st, st, nil)
		sc.fr = fr // (captured variables are found through the frame)
		for _, a := range fr.contract.Assumes {
			c.fact(Implies(st.pc, c.translateBool(sc, a.E)))
			c.eng.assume("assumed (definitional) in " + FuncKey(fn) + ": " + a.Src)
		}
	}
	if fr.contract != nil {
		c.runGhost(fr, st, fr.contract, "entry", nil)
		if fr.contract.Asserts != nil && len(fr.contract.Asserts["entry"]) > 0 {
			fr.curBlock = fn.Blocks[0]
			c.pointAsserts(fr, st, "entry", fn.Pos())
		}
	}
	incoming := map[*ssa.BasicBlock][]inEdge{}
	incoming[fn.Blocks[0]] = []inEdge{{nil, st}}
	for _, b := range rpo(fn) {
		ins := incoming[b]
		if len(ins) == 0 {
			continue
		}
		var sts []*State
		for _, e := range ins {
			sts = append(sts, e.st)
		}
		cur, guards := c.mergeStates(sts)
		// phis
		li := fr.loops[b]
		var phis []*ssa.Phi
		for _, in := range b.Instrs {
			if p, ok := in.(*ssa.Phi); ok {
				phis = append(phis, p)
			} else if _, ok := in.(*ssa.DebugRef); !ok {
				break
			}
		}
		for _, p := range phis {
			var vs []Val
			for _, e := range ins {
				idx := predIndex(b, e.from)
				vs = append(vs, fr.eval(p.Edges[idx]))
			}
			fr.env[p] = c.mergeVals(guards, vs)
		}
		if li != nil {
			c.loopHead(fr, li, cur, phis)
		}
		if cur.pc.S == "false" {
			continue
		}
		fr.curBlock = b
		c.curFrame = fr
		alive := true
		for i, in := range b.Instrs {
			fr.curIdx = i
			if _, ok := in.(*ssa.Phi); ok {
				continue
			}
			c.curFrame = fr
			fr.curBlock = b
			if !c.execInstr(fr, cur, in, incoming) {
				alive = false
				break
			}
		}
		_ = alive
	}
	// merge returns
	if len(fr.retVals) == 0 {
		dead := st.clone()
		dead.pc = False
		return dead, nil
	}
	var sts []*State
	var vals []Val
	for _, r := range fr.retVals {
		sts = append(sts, r.st)
		vals = append(vals, r.val)
	}
	out, guards := c.mergeStates(sts)
	var res Val
	if vals[0] != nil {
		res = c.mergeVals(guards, vals)
	}
	if fr.contract != nil && len(fr.contract.Ghost) > 0 {
		extra := map[string]Val{}
		if res != nil {
			extra["result"] = res
			if tup, ok := res.(Tuple); ok {
				for i, r := range tup {
					extra[fmt.Sprintf("result%d", i)] = r
				}
			}
		}
		fr.curBlock = nil
		c.runGhost(fr, out, fr.contract, "exit", extra)
	}
	if fr.contract != nil && fr.contract.Asserts != nil && len(fr.contract.Asserts["exit"]) > 0 {
		fr.curBlock = nil
		c.pointAsserts(fr, out, "exit", fn.Pos())
	}
	return out, res
}

func predIndex(b, from *ssa.BasicBlock) int {
	for i, p := range b.Preds {
		if p == from {
			return i
		}
	}
	panic("pred not found")
}

// eval returns the symbolic value of an SSA value in this frame.
func (fr *Frame) eval(v ssa.Value) Val {
	c := fr.ctx
	switch x := v.(type) {
	case *ssa.Const:
		return c.constVal(x)
	case *ssa.Function:
		return &FnVal{Fn: x}
	case *ssa.Global:
		// pointer to a package-level variable: a cell
		name := "glob!" + x.Pkg.Pkg.Path() + "." + x.Name()
		es := sortOf(x.Type().(*types.Pointer).Elem())
		base := c.declare(name, SRef)
		return &Loc{Kind: "cell", Heap: "C:glob:" + string(es), Sort: es, Base: base, GT: x.Type().(*types.Pointer).Elem()}
	case *ssa.Builtin:
		unsup("builtin %s used as value", x.Name())
	}
	if val, ok := fr.env[v]; ok {
		return val
	}
	unsup("no value for %s (%T) in %s", v.Name(), v, fr.fn)
	return nil
}

func (fr *Frame) term(v ssa.Value) *Term { return fr.ctx.asTerm(fr.eval(v)) }

func (c *VCtx) zero(t types.Type) Val {
	switch u := t.Underlying().(type) {
	case *types.Basic:
		switch sortOf(t) {
		case SBool:
			return False
		case SInt:
			return TG(SInt, t, "0")
		case SStr:
			return c.strLit("")
		case SRef:
			return Null
		}
	case *types.Slice:
		return TG(SSlice, t, "nil_slice")
	case *types.Tuple:
		out := Tuple{}
		for i := 0; i < u.Len(); i++ {
			out = append(out, c.zero(u.At(i).Type()))
		}
		return out
	}
	if _, ok := t.(*types.TypeParam); ok {
		return T(SAny, "zero_Any")
	}
	s := sortOf(t)
	if s == SRef {
		return TG(SRef, t, "null")
	}
	unsup("zero value of %s", t)
	return nil
}

func (c *VCtx) strLit(s string) *Term {
	name := fmt.Sprintf("strlit!%x", s)
	t := c.declare(name, SStr)
	key := "lit:" + name
	if !c.declSet[key] {
		c.declSet[key] = true
		c.defFact(t, Eq(StrLen(t), IntLit(int64(len(s)))))
		for i := 0; i < len(s); i++ {
			c.defFact(t, Eq(Select(StrData(t), IntLit(int64(i))), IntLit(int64(s[i]))))
		}
	}
	return t
}

// facts0 adds a fact that is part of the declarations (always visible).
func (c *VCtx) facts0(t *Term) {
	c.decls = append(c.decls, "(assert "+t.S+")")
}

func (c *VCtx) constVal(k *ssa.Const) Val {
	t := k.Type()
	if k.Value == nil {
		return c.zero(t)
	}
	switch k.Value.Kind() {
	case constant.Bool:
		if constant.BoolVal(k.Value) {
			return True
		}
		return False
	case constant.Int:
		r := IntLitS(k.Value.ExactString())
		r.GT = t
		return r
	case constant.String:
		return c.strLit(constant.StringVal(k.Value))
	}
	unsup("constant %s", k)
	return nil
}
