package vc

import (
	"go/types"

	"golang.org/x/tools/go/ssa"
)

func init() {
	nonNilErr := func(name string) *model {
		return &model{name: name + " returns a non-nil error", mods: noMods,
			run: func(c *VCtx, fr *Frame, st *State, cc *ssa.CallCommon, args []Val, res types.Type) Val {
				r := c.freshRef(st, "err")
				r.GT = res
				return r
			}}
	}
	for _, n := range []string{"errors.New", "fmt.Errorf", "github.com/pkg/errors.New", "github.com/pkg/errors.Errorf"} {
		staticModels[n] = nonNilErr(n)
	}
	wrap := &model{name: "github.com/pkg/errors.Wrap(err, msg) is nil iff err is nil", mods: noMods,
		run: func(c *VCtx, fr *Frame, st *State, cc *ssa.CallCommon, args []Val, res types.Type) Val {
			r := c.freshRef(st, "err")
			return TG(SRef, res, Ite(Eq(c.asTerm(args[0]), Null), Null, r).S)
		}}
	staticModels["github.com/pkg/errors.Wrap"] = wrap
	staticModels["github.com/pkg/errors.Wrapf"] = wrap
	staticModels["github.com/pkg/errors.WithStack"] = wrap
	staticModels["strings.HasPrefix"] = &model{name: "strings.HasPrefix(s, p) <=> len(p) <= len(s) and s[i] == p[i] for all i < len(p)", mods: noMods,
		run: func(c *VCtx, fr *Frame, st *State, cc *ssa.CallCommon, args []Val, res types.Type) Val {
			b := c.fresh("hp", SBool)
			c.defFact(b, Eq(b, c.hasPrefix(c.asTerm(args[0]), c.asTerm(args[1]))))
			return b
		}}
	staticModels["strings.TrimPrefix"] = &model{name: "strings.TrimPrefix(s, p) = s[len(p):] if HasPrefix(s, p) else s", mods: noMods,
		run: func(c *VCtx, fr *Frame, st *State, cc *ssa.CallCommon, args []Val, res types.Type) Val {
			s, p := c.asTerm(args[0]), c.asTerm(args[1])
			sub := c.substr(s, StrLen(p), StrLen(s))
			b := c.fresh("hp", SBool)
			c.defFact(b, Eq(b, c.hasPrefix(s, p)))
			return c.name("trim", Ite(b, sub, s))
		}}
}
