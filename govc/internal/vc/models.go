package vc

import (
	"go/types"

	"golang.org/x/tools/go/ssa"
)

func init() {
	nonNilErr := func(name string) *model {
		return &model{name: name + " returns a non-nil error", mods: noMods,
			run: func(c *VCtx, fr *Frame, st *State, cc *ssa.CallCommon, args []Val, res types.Type) Val {
				r := c.freshRef(st, "err")
				r.GT = res
				return r
			}}
	}
	for _, n := range []string{"errors.New", "fmt.Errorf", "github.com/pkg/errors.New", "github.com/pkg/errors.Errorf"} {
		staticModels[n] = nonNilErr(n)
	}
	wrap := &model{name: "github.com/pkg/errors.Wrap(err, msg) is nil iff err is nil", mods: noMods,
		run: func(c *VCtx, fr *Frame, st *State, cc *ssa.CallCommon, args []Val, res types.Type) Val {
			r := c.freshRef(st, "err")
			return TG(SRef, res, Ite(Eq(c.asTerm(args[0]), Null), Null, r).S)
		}}
	staticModels["github.com/pkg/errors.Wrap"] = wrap
	staticModels["github.com/pkg/errors.Wrapf"] = wrap
	staticModels["github.com/pkg/errors.WithStack"] = wrap
}
