package unique

// Replay driver for GoVC findings in unique (injected with go test -overlay; never written into /repo).
// Failed obligations of these proofs are quantified and come without an input.
// The driver maps the failed obligation to the scenario that the broken obligation rules out and runs it
// against the real code: pseudo-random call sequences on KeyedList / KeyedMap next to the contents the property
// describes (one value per key, the latest set that differed) and a replay of the change notifications.

import (
	"encoding/json"
	"fmt"
	"os"
	"strings"
	"testing"
)

type govcVal struct {
	Key int
	Rev int // revision: values with the same key and the same Rev/2 compare equal
}

func govcCmp(k int, a, b govcVal) bool { return a.Rev/2 == b.Rev/2 }

// govcApply replays one notification on a copy of the previous contents.
func govcApply(m map[int]govcVal, k int, v govcVal, added, removed bool) string {
	old, present := m[k]
	switch {
	case removed:
		if added || !present || old != v {
			return fmt.Sprintf("notification removed(%d,%v): added=%v, key present before=%v with %v", k, v, added, present, old)
		}
		delete(m, k)
	default:
		if added == present {
			return fmt.Sprintf("notification set(%d,%v): added=%v but key present before=%v", k, v, added, present)
		}
		m[k] = v
	}
	return ""
}

func govcSame(a, b map[int]govcVal) bool {
	if len(a) != len(b) {
		return false
	}
	for k, v := range a {
		if w, ok := b[k]; !ok || w != v {
			return false
		}
	}
	return true
}

// govcModelSet: the contents the property describes after setting v (the old version is kept when equal).
func govcModelSet(m map[int]govcVal, v govcVal) {
	if old, ok := m[v.Key]; ok && govcCmp(v.Key, v, old) {
		return
	}
	m[v.Key] = v
}

func govcRun(useMap bool, ops []string) string {
	for seed := uint64(1); seed <= 600; seed++ {
		rnd := seed * 0x9E3779B97F4A7C15
		next := func(n int) int {
			rnd ^= rnd << 13
			rnd ^= rnd >> 7
			rnd ^= rnd << 17
			return int(rnd % uint64(n))
		}
		replay := map[int]govcVal{}
		var notifErr string
		changed := func(k int, v govcVal, added, removed bool) {
			if e := govcApply(replay, k, v, added, removed); e != "" && notifErr == "" {
				notifErr = e
			}
		}
		var list *KeyedList[int, govcVal]
		var kmap *KeyedMap[int, govcVal]
		if useMap {
			kmap = NewKeyedMap[int, govcVal](govcCmp, changed, nil)
		} else {
			list = NewKeyedList[int, govcVal](func(v govcVal) int { return v.Key }, govcCmp, changed, nil)
		}
		model := map[int]govcVal{}
		var hist []string
		contents := func() map[int]govcVal {
			out := map[int]govcVal{}
			if useMap {
				for _, k := range kmap.GetKeys() {
					out[k] = kmap.vals[k]
				}
			} else {
				for _, v := range list.GetValues() {
					out[v.Key] = v
				}
			}
			return out
		}
		for i, n := 0, 2+next(6); i < n; i++ {
			op := ops[next(len(ops))]
			var vals []govcVal
			for j, m := 0, next(5); j < m; j++ {
				vals = append(vals, govcVal{Key: next(3), Rev: next(6)})
			}
			hist = append(hist, fmt.Sprintf("%s(%v)", op, vals))
			asMap := map[int]govcVal{}
			for _, v := range vals {
				asMap[v.Key] = v
			}
			switch op {
			case "AppendValues":
				if useMap {
					kmap.AppendValues(asMap)
					for _, v := range asMap {
						govcModelSet(model, v)
					}
				} else {
					list.AppendValues(vals...)
					for _, v := range vals {
						govcModelSet(model, v)
					}
				}
			case "SetValues":
				keep := map[int]bool{}
				if useMap {
					kmap.SetValues(asMap)
					for _, v := range asMap {
						govcModelSet(model, v)
						keep[v.Key] = true
					}
				} else {
					list.SetValues(vals...)
					for _, v := range vals {
						govcModelSet(model, v)
						keep[v.Key] = true
					}
				}
				for k := range model {
					if !keep[k] {
						delete(model, k)
					}
				}
			case "RemoveKeys":
				var keys []int
				for _, v := range vals {
					keys = append(keys, v.Key)
					delete(model, v.Key)
				}
				if useMap {
					kmap.RemoveKeys(keys...)
				} else {
					list.RemoveKeys(keys...)
				}
			case "RemoveValues":
				list.RemoveValues(vals...)
				for _, v := range vals {
					delete(model, v.Key)
				}
			}
			got := contents()
			what := "KeyedList"
			if useMap {
				what = "KeyedMap"
			}
			if notifErr != "" {
				return fmt.Sprintf("%s: %s: %s", what, strings.Join(hist, "; "), notifErr)
			}
			if !govcSame(got, replay) {
				return fmt.Sprintf("%s: %s: contents %v, notifications replayed on the previous contents give %v", what, strings.Join(hist, "; "), got, replay)
			}
			if !govcSame(got, model) {
				return fmt.Sprintf("%s: %s: contents %v, the latest values set that differed are %v", what, strings.Join(hist, "; "), got, model)
			}
		}
	}
	return ""
}

func TestGovcReplay(t *testing.T) {
	path := os.Getenv("GOVC_REPLAY_FILE")
	if path == "" {
		t.Skip("no replay file")
	}
	raw, _ := os.ReadFile(path)
	var rf struct {
		Obligation string `json:"obligation"`
	}
	_ = json.Unmarshal(raw, &rf)
	useMap := strings.Contains(rf.Obligation, "KeyedMap")
	ops := []string{"AppendValues", "SetValues", "RemoveKeys"}
	if !useMap {
		ops = append(ops, "RemoveValues")
	}
	// the operation named by the failed obligation, mixed with appends to build up contents
	for _, op := range []string{"SetValues", "RemoveKeys", "RemoveValues", "AppendValues"} {
		if strings.Contains(rf.Obligation, ")."+op+"#") {
			ops = []string{op, "AppendValues"}
		}
	}
	verdict := "NOT-REPRODUCED"
	if msg := govcRun(useMap, ops); msg != "" {
		verdict = "REPRODUCED " + msg
	}
	fmt.Println("GOVC-REPLAY: " + verdict)
}
