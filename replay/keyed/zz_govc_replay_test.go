package keyed

// Replay driver for GoVC findings in keyed (injected with go test -overlay; never written into /repo).
// Failed obligations of the monitor proofs come without an input.
// The driver maps the failed obligation to the scenario that the broken obligation rules out and runs it
// against the real code through the public API.
// govc-replay: needs -race

import (
	"context"
	"encoding/json"
	"errors"
	"fmt"
	"os"
	"strings"
	"sync/atomic"
	"testing"
	"time"

	"github.com/aperturerobotics/util/backoff"
)

const govcStep = 30 * time.Millisecond

type govcProbe struct {
	active, max atomic.Int32
	hold        chan struct{}
	first       atomic.Bool
}

func (p *govcProbe) routine() Routine {
	return func(ctx context.Context) error {
		n := p.active.Add(1)
		for {
			m := p.max.Load()
			if n <= m || p.max.CompareAndSwap(m, n) {
				break
			}
		}
		<-ctx.Done()
		if !p.first.Swap(true) {
			<-p.hold // the first instance is slow to return
		}
		p.active.Add(-1)
		return nil
	}
}

// RestartRoutine twice while the first instance is slow to return
func govcRestartOverlap() string {
	p := &govcProbe{hold: make(chan struct{})}
	k := NewKeyed[string, int](func(key string) (Routine, int) { return p.routine(), 1 })
	k.SetContext(context.Background(), false)
	k.SetKey("a", true)
	time.Sleep(govcStep)
	k.RestartRoutine("a")
	time.Sleep(govcStep)
	k.RestartRoutine("a")
	time.Sleep(3 * govcStep)
	m := p.max.Load()
	close(p.hold)
	if m > 1 {
		return fmt.Sprintf("SetKey(a); RestartRoutine(a) x2 with a slow first instance: %d instances of key a were executing at the same time", m)
	}
	return ""
}

// ResetRoutine while the context is cleared, then SetContext
func govcResetNilCtx() string {
	p := &govcProbe{hold: make(chan struct{})}
	k := NewKeyed[string, int](func(key string) (Routine, int) { return p.routine(), 1 })
	k.SetContext(context.Background(), false)
	k.SetKey("a", true)
	time.Sleep(govcStep)
	k.ClearContext()
	k.ResetRoutine("a")
	k.SetContext(context.Background(), false)
	time.Sleep(3 * govcStep)
	m := p.max.Load()
	close(p.hold)
	if m > 1 {
		return fmt.Sprintf("SetKey(a); ClearContext; ResetRoutine(a); SetContext: %d instances of key a at the same time", m)
	}
	return ""
}

// a non-restarting SetKey must not cancel the pending retry
func govcSetKeyKeepsRetry() string {
	var runs atomic.Int32
	k := NewKeyed[string, int](func(key string) (Routine, int) {
		return func(ctx context.Context) error { runs.Add(1); return errors.New("boom") }, 1
	}, WithRetry[string, int](&backoff.Backoff{BackoffKind: backoff.BackoffKind_BackoffKind_CONSTANT, Constant: &backoff.Constant{Interval: 60}}))
	k.SetContext(context.Background(), false)
	k.SetKey("a", true)
	time.Sleep(20 * time.Millisecond)
	k.SetKey("a", false)
	time.Sleep(400 * time.Millisecond)
	if n := runs.Load(); n < 2 {
		return fmt.Sprintf("key a failed with retry configured; SetKey(a, start=false) during the backoff; the routine ran %d time(s) in 400 ms: the retry was cancelled", n)
	}
	return ""
}

// a key requested again by SyncKeys during its release delay stays
func govcSyncKeysDelay() string {
	k := NewKeyed[string, int](func(key string) (Routine, int) {
		return func(ctx context.Context) error { <-ctx.Done(); return nil }, 1
	}, WithReleaseDelay[string, int](100*time.Millisecond))
	k.SetContext(context.Background(), false)
	k.SetKey("a", true)
	k.RemoveKey("a")
	k.SyncKeys([]string{"a"}, false)
	time.Sleep(300 * time.Millisecond)
	if _, ok := k.GetKey("a"); !ok {
		return "SetKey(a); RemoveKey(a) with a 100 ms release delay; SyncKeys([a]); 300 ms later key a is gone: the stale removal timer fired"
	}
	return ""
}

// govcResetPendingRemoval: a key whose delayed removal is pending is reset; the removal must still happen.
func govcResetPendingRemoval() string {
	k := NewKeyed[string, int](func(key string) (Routine, int) {
		return func(ctx context.Context) error { <-ctx.Done(); return nil }, 1
	}, WithReleaseDelay[string, int](100*time.Millisecond))
	k.SetContext(context.Background(), false)
	k.SetKey("a", true)
	k.RemoveKey("a")
	k.ResetRoutine("a")
	time.Sleep(400 * time.Millisecond)
	if _, ok := k.GetKey("a"); ok {
		return "SetKey(a); RemoveKey(a) with a 100 ms release delay; ResetRoutine(a); 400 ms later key a is still present: the reset dropped the pending removal"
	}
	return ""
}

// govcRemovalCancels: once a key is gone (delayed removal included) or the context is cleared, every instance
// started for it has a cancelled context and nothing is started for it again.
func govcRemovalCancels() string {
	for _, restartInDelay := range []bool{true, false} {
		var last atomic.Pointer[context.Context]
		var starts atomic.Int32
		k := NewKeyed[string, int](func(key string) (Routine, int) {
			return func(ctx context.Context) error {
				starts.Add(1)
				last.Store(&ctx)
				<-ctx.Done()
				return nil
			}, 1
		}, WithReleaseDelay[string, int](100*time.Millisecond))
		k.SetContext(context.Background(), false)
		k.SetKey("a", true)
		time.Sleep(govcStep)
		k.RemoveKey("a")
		if restartInDelay {
			k.RestartRoutine("a")
			time.Sleep(govcStep)
		}
		time.Sleep(400 * time.Millisecond)
		if _, ok := k.GetKey("a"); ok {
			return "RemoveKey(a) with a 100 ms release delay: the key is still present 400 ms later"
		}
		n := starts.Load()
		if p := last.Load(); p != nil && (*p).Err() == nil {
			return fmt.Sprintf("SetKey(a); RemoveKey(a) with a 100 ms release delay; RestartRoutine(a)=%v inside the delay: after the key is gone the context of its last instance is not cancelled", restartInDelay)
		}
		time.Sleep(100 * time.Millisecond)
		if starts.Load() != n {
			return "an instance was started for a key after it was removed"
		}
	}
	// ClearContext
	var last atomic.Pointer[context.Context]
	k := NewKeyed[string, int](func(key string) (Routine, int) {
		return func(ctx context.Context) error { last.Store(&ctx); <-ctx.Done(); return nil }, 1
	})
	k.SetContext(context.Background(), false)
	k.SetKey("a", true)
	time.Sleep(govcStep)
	k.ClearContext()
	if p := last.Load(); p != nil && (*p).Err() == nil {
		return "SetKey(a); ClearContext(): the context of the running instance is not cancelled"
	}
	return ""
}

// govcRaceStress exercises the public API concurrently (the driver runs under the race detector: a data race
// inside the package is reported by the harness from the detector's output).
func govcRaceStress() string {
	k := NewKeyed[string, int](func(key string) (Routine, int) {
		return func(ctx context.Context) error {
			select {
			case <-ctx.Done():
				return nil
			case <-time.After(time.Millisecond):
				return errors.New("boom")
			}
		}, 1
	}, WithReleaseDelay[string, int](2*time.Millisecond), WithExitCb[string, int](func(key string, routine Routine, data int, err error) {}),
		WithRetry[string, int](&backoff.Backoff{BackoffKind: backoff.BackoffKind_BackoffKind_CONSTANT, Constant: &backoff.Constant{Interval: 1}}))
	ctx, cancel := context.WithCancel(context.Background())
	defer cancel()
	k.SetContext(ctx, true)
	stop := make(chan struct{})
	done := make(chan struct{}, 8)
	keys := []string{"a", "b", "c"}
	worker := func(f func(i int)) {
		go func() {
			for i := 0; ; i++ {
				select {
				case <-stop:
					done <- struct{}{}
					return
				default:
					f(i)
				}
			}
		}()
	}
	worker(func(i int) { k.SetKey(keys[i%3], i%2 == 0) })
	worker(func(i int) { k.RemoveKey(keys[i%3]) })
	worker(func(i int) { k.RestartRoutine(keys[i%3]) })
	worker(func(i int) { k.ResetRoutine(keys[i%3]) })
	worker(func(i int) { k.SyncKeys(keys[:i%4], i%2 == 0) })
	worker(func(i int) { k.GetKeys(); k.GetKey(keys[i%3]); k.GetKeysWithData() })
	worker(func(i int) {
		if i%7 == 0 {
			k.ClearContext()
		}
		k.SetContext(ctx, i%2 == 0)
		k.RestartAllRoutines()
	})
	time.Sleep(400 * time.Millisecond)
	close(stop)
	for i := 0; i < 7; i++ {
		<-done
	}
	return ""
}

// govcRaceStressRefCount: the same for KeyedRefCount (references added, released twice, keys removed).
func govcRaceStressRefCount() string {
	k := NewKeyedRefCount[string, int](func(key string) (Routine, int) {
		return func(ctx context.Context) error { <-ctx.Done(); return nil }, 1
	})
	ctx, cancel := context.WithCancel(context.Background())
	defer cancel()
	k.SetContext(ctx, true)
	stop := make(chan struct{})
	done := make(chan struct{}, 8)
	keys := []string{"a", "b"}
	for w := 0; w < 4; w++ {
		go func() {
			for i := 0; ; i++ {
				select {
				case <-stop:
					done <- struct{}{}
					return
				default:
				}
				ref, _, _ := k.AddKeyRef(keys[i%2])
				if i%5 == 0 {
					k.RemoveKey(keys[i%2])
				}
				go ref.Release()
				ref.Release()
			}
		}()
	}
	time.Sleep(300 * time.Millisecond)
	close(stop)
	for i := 0; i < 4; i++ {
		<-done
	}
	return ""
}

// govcRefCountModel runs pseudo-random sequences of AddKeyRef / KeyedRef.Release (also repeated, also after the
// key was removed) / KeyedRefCount.RemoveKey / GetKey against the real KeyedRefCount and against the property's
// model: a key is present iff a reference taken since its last RemoveKey is still unreleased.
func govcRefCountModel() string {
	keys := []string{"a", "b"}
	for seed := uint64(1); seed <= 600; seed++ {
		x := seed*0x9E3779B97F4A7C15 + 1
		next := func(n int) int {
			x ^= x << 13
			x ^= x >> 7
			x ^= x << 17
			return int(x % uint64(n))
		}
		k := NewKeyedRefCount[string, int](func(key string) (Routine, int) {
			return func(ctx context.Context) error { <-ctx.Done(); return nil }, 1
		})
		type held struct {
			ref  *KeyedRef[string, int]
			key  string
			live bool
		}
		var refs []*held
		count := map[string]int{}
		var trace []string
		for step := 0; step < 14; step++ {
			key := keys[next(2)]
			switch next(4) {
			case 0:
				ref, _, existed := k.AddKeyRef(key)
				trace = append(trace, "AddKeyRef("+key+")")
				if existed != (count[key] > 0) {
					return fmt.Sprintf("%v: existed=%v but %d unreleased references", trace, existed, count[key])
				}
				refs = append(refs, &held{ref, key, true})
				count[key]++
			case 1:
				if len(refs) == 0 {
					continue
				}
				h := refs[next(len(refs))]
				h.ref.Release()
				trace = append(trace, fmt.Sprintf("Release(%s,live=%v)", h.key, h.live))
				if h.live {
					h.live = false
					count[h.key]--
				}
			case 2:
				existed := k.RemoveKey(key)
				trace = append(trace, "RemoveKey("+key+")")
				if existed != (count[key] > 0) {
					return fmt.Sprintf("%v: RemoveKey returned %v but %d unreleased references", trace, existed, count[key])
				}
				for _, h := range refs {
					if h.key == key {
						h.live = false
					}
				}
				count[key] = 0
			case 3:
			}
			for _, c := range keys {
				_, present := k.GetKey(c)
				if present != (count[c] > 0) {
					return fmt.Sprintf("%v: key %s present=%v with %d unreleased references", trace, c, present, count[c])
				}
			}
			if got := k.GetKeys(); len(got) != func() int { n := 0; for _, c := range keys { if count[c] > 0 { n++ } }; return n }() {
				return fmt.Sprintf("%v: GetKeys=%v", trace, got)
			}
		}
	}
	return ""
}

// a new reference taken while the delayed removal of the key is pending keeps the key for good
func govcRefCountDelay() string {
	k := NewKeyedRefCount[string, int](func(key string) (Routine, int) {
		return func(ctx context.Context) error { <-ctx.Done(); return nil }, 1
	}, WithReleaseDelay[string, int](4*govcStep))
	r1, _, _ := k.AddKeyRef("a")
	r1.Release()
	if _, ok := k.GetKey("a"); !ok {
		return "released key vanished before the release delay"
	}
	r2, _, existed := k.AddKeyRef("a")
	if !existed {
		return "AddKeyRef during the release delay reports existed=false"
	}
	time.Sleep(8 * govcStep)
	if _, ok := k.GetKey("a"); !ok {
		return "AddKeyRef(a); Release; AddKeyRef(a) within the delay; wait: key a is gone although a reference is unreleased"
	}
	r2.Release()
	time.Sleep(8 * govcStep)
	if _, ok := k.GetKey("a"); ok {
		return "key a still present after its last reference was released and the delay expired"
	}
	return ""
}

// RemoveKey concurrent with AddKeyRef: afterwards the key is present iff the reference is still counted
func govcRefCountRemoveRace() string {
	for i := 0; i < 3000; i++ {
		k := NewKeyedRefCount[string, int](func(key string) (Routine, int) {
			return func(ctx context.Context) error { <-ctx.Done(); return nil }, 1
		})
		k.AddKeyRef("a")
		done := make(chan struct{})
		go func() { k.RemoveKey("a"); close(done) }()
		r2, _, _ := k.AddKeyRef("a")
		<-done
		r2.Release()
		if _, ok := k.GetKey("a"); ok {
			return "RemoveKey(a) || AddKeyRef(a), then Release of the new reference: key a is still present with no reference left"
		}
	}
	return ""
}

// govcKeySetModel runs pseudo-random sequences of key-set operations (restricted to the given operations)
// against the real Keyed and against the key set the property describes, with and without a release delay,
// with and without a context; it returns the first sequence whose return values or key set differ.
func govcKeySetModel(ops []string) string {
	keys := []string{"a", "b", "c"}
	for seed := uint64(1); seed <= 400; seed++ {
		rnd := seed * 0x9E3779B97F4A7C15
		next := func(n int) int {
			rnd ^= rnd << 13
			rnd ^= rnd >> 7
			rnd ^= rnd << 17
			return int(rnd % uint64(n))
		}
		delay := time.Duration(0)
		if seed%2 == 0 {
			delay = 60 * time.Millisecond
		}
		var opts []Option[string, int]
		if delay != 0 {
			opts = append(opts, WithReleaseDelay[string, int](delay))
		}
		k := NewKeyed[string, int](func(key string) (Routine, int) {
			return func(ctx context.Context) error { <-ctx.Done(); return nil }, len(key)
		}, opts...)
		ctx, cancel := context.WithCancel(context.Background())
		if seed%4 < 2 {
			k.SetContext(ctx, false)
		}
		present, pending := map[string]bool{}, map[string]bool{}
		in := func(key string) bool { return present[key] || pending[key] }
		var hist []string
		fail := func(f string, a ...any) string {
			cancel()
			return fmt.Sprintf("release delay %v: %s: %s", delay, strings.Join(hist, "; "), fmt.Sprintf(f, a...))
		}
		n := 3 + next(10)
		for i := 0; i < n; i++ {
			op, key := ops[next(len(ops))], keys[next(len(keys))]
			switch op {
			case "SetKey":
				start := next(2) == 0
				hist = append(hist, fmt.Sprintf("SetKey(%s,%v)", key, start))
				if _, existed := k.SetKey(key, start); existed != in(key) {
					return fail("existed=%v, the key set says %v", existed, in(key))
				}
				present[key] = true
				delete(pending, key)
			case "RemoveKey":
				hist = append(hist, fmt.Sprintf("RemoveKey(%s)", key))
				if existed := k.RemoveKey(key); existed != in(key) {
					return fail("existed=%v, the key set says %v", existed, in(key))
				}
				if present[key] && delay != 0 {
					pending[key] = true
				}
				delete(present, key)
			case "GetKey":
				hist = append(hist, fmt.Sprintf("GetKey(%s)", key))
				if data, existed := k.GetKey(key); existed != in(key) || (existed && data != len(key)) {
					return fail("(%v,%v), the key set says existed=%v", data, existed, in(key))
				}
			case "ResetRoutine":
				hist = append(hist, fmt.Sprintf("ResetRoutine(%s)", key))
				if existed, _ := k.ResetRoutine(key); existed != in(key) {
					return fail("existed=%v, the key set says %v", existed, in(key))
				}
			case "RestartRoutine":
				hist = append(hist, fmt.Sprintf("RestartRoutine(%s)", key))
				if existed, _ := k.RestartRoutine(key); existed != in(key) {
					return fail("existed=%v, the key set says %v", existed, in(key))
				}
			case "SyncKeys":
				var want []string
				for _, c := range keys {
					if next(2) == 0 {
						want = append(want, c)
						if next(4) == 0 {
							want = append(want, c)
						}
					}
				}
				hist = append(hist, fmt.Sprintf("SyncKeys(%v)", want))
				added, removed := k.SyncKeys(want, next(2) == 0)
				wantSet, expAdded, expRemoved := map[string]bool{}, map[string]bool{}, map[string]bool{}
				for _, c := range want {
					wantSet[c] = true
					if !in(c) {
						expAdded[c] = true
					}
				}
				for _, c := range keys {
					if in(c) && !wantSet[c] {
						expRemoved[c] = true
					}
				}
				if !govcSameSet(added, expAdded) || !govcSameSet(removed, expRemoved) {
					return fail("added=%v removed=%v, the key set says added=%v removed=%v", added, removed, govcKeysOf(expAdded), govcKeysOf(expRemoved))
				}
				for _, c := range keys {
					switch {
					case wantSet[c]:
						present[c] = true
						delete(pending, c)
					case in(c):
						if present[c] && delay != 0 {
							pending[c] = true
						}
						delete(present, c)
					}
				}
			}
			all := map[string]bool{}
			for c := range present {
				all[c] = true
			}
			for c := range pending {
				all[c] = true
			}
			if got := k.GetKeys(); !govcSameSet(got, all) {
				return fail("GetKeys=%v, the key set is %v", got, govcKeysOf(all))
			}
		}
		if delay != 0 && seed%8 == 0 {
			time.Sleep(4 * delay)
			if got := k.GetKeys(); !govcSameSet(got, present) {
				return fail("after the release delay has passed GetKeys=%v, the requested keys are %v", got, govcKeysOf(present))
			}
		}
		cancel()
	}
	return ""
}

func govcSameSet(got []string, want map[string]bool) bool {
	seen := map[string]bool{}
	for _, g := range got {
		if !want[g] || seen[g] {
			return false
		}
		seen[g] = true
	}
	return len(seen) == len(want)
}

func govcKeysOf(m map[string]bool) []string {
	out := []string{}
	for _, c := range []string{"a", "b", "c"} {
		if m[c] {
			out = append(out, c)
		}
	}
	return out
}

func TestGovcReplay(t *testing.T) {
	path := os.Getenv("GOVC_REPLAY_FILE")
	if path == "" {
		t.Skip("no replay file")
	}
	raw, _ := os.ReadFile(path)
	var rf struct {
		Obligation string `json:"obligation"`
	}
	_ = json.Unmarshal(raw, &rf)
	ob := rf.Obligation
	has := func(subs ...string) bool {
		for _, s := range subs {
			if strings.Contains(ob, s) {
				return true
			}
		}
		return false
	}
	model := func(ops ...string) func() string { return func() string { return govcKeySetModel(ops) } }
	var scenarios []func() string
	switch {
	case has("KeyedRef") && has("#own.", "#call.holds", "#lock.", "#block.locked"):
		scenarios = []func() string{govcRaceStressRefCount}
	case has("KeyedRef"):
		scenarios = []func() string{govcRefCountModel, govcRefCountDelay, govcRefCountRemoveRace}
	case has("#own.", "#call.holds", "#lock.", "#block.locked"):
		scenarios = []func() string{govcRaceStress}
	case has("keepretry"):
		scenarios = []func() string{govcSetKeyKeepsRetry}
	case has("pendingkept"):
		scenarios = []func() string{govcResetPendingRemoval}
	case has(".X1", ".X2", ".X3", "otherctx", "ownctx", "oldcancelled", "livecancel", "liveinmap", "liverec", "newctx"):
		scenarios = []func() string{govcRemovalCancels}
	case has(".E1", "handover", ".H2", ".chain", "go1", ".R1", ".R2"):
		// hand-over between instances of one key
		scenarios = []func() string{govcRestartOverlap, govcResetNilCtx}
	case has("SyncKeys"):
		scenarios = []func() string{govcSyncKeysDelay, model("SetKey", "RemoveKey", "GetKey", "SyncKeys")}
	case has("resetRoutineLocked", "ResetRoutine"):
		scenarios = []func() string{model("SetKey", "RemoveKey", "GetKey", "ResetRoutine"), govcResetPendingRemoval}
	case has("restartRoutineLocked", "RestartRoutine"):
		scenarios = []func() string{model("SetKey", "RemoveKey", "GetKey", "RestartRoutine")}
	case has("RemoveKey", "GetKey", "SetKey", "remove", ".K0", ".K1", ".K2", ".K3", ".D0"):
		scenarios = []func() string{model("SetKey", "RemoveKey", "GetKey")}
	}
	verdict := "NOT-REPRODUCED"
	for _, s := range scenarios {
		if msg := s(); msg != "" {
			verdict = "REPRODUCED " + msg
			break
		}
	}
	fmt.Println("GOVC-REPLAY: " + verdict)
}
