package memo

// Replay driver for GoVC findings in memo (injected with go test -overlay; never written into /repo).
// The driver maps the failed obligation to the scenario that the broken obligation rules out: many
// goroutines released together onto a fresh memoized function; it must run once and everybody must get
// its result. Run under the race detector (unsynchronised access to the captured variables).
// govc-replay: needs -race

import (
	"fmt"
	"os"
	"sync"
	"sync/atomic"
	"testing"
)

func govcOnce() (msg string) {
	for trial := 0; trial < 4000; trial++ {
		var calls atomic.Int32
		f := MemoizeFunc(func() (int, error) { return int(calls.Add(1)), nil })
		start := make(chan struct{})
		var wg sync.WaitGroup
		bad := make(chan string, 8)
		for g := 0; g < 8; g++ {
			wg.Add(1)
			go func() {
				defer wg.Done()
				defer func() {
					if r := recover(); r != nil {
						bad <- fmt.Sprintf("panic: %v", r)
					}
				}()
				<-start
				v, err := f()
				if v != 1 || err != nil {
					bad <- fmt.Sprintf("a caller got (%d, %v); the single call returned (1, nil)", v, err)
				}
			}()
		}
		close(start)
		wg.Wait()
		select {
		case m := <-bad:
			return m
		default:
		}
		if calls.Load() != 1 {
			return fmt.Sprintf("the memoized function was called %d times", calls.Load())
		}
	}
	return ""
}

func TestGovcReplay(t *testing.T) {
	if os.Getenv("GOVC_REPLAY_FILE") == "" {
		t.Skip("no replay file")
	}
	verdict := "NOT-REPRODUCED"
	if msg := govcOnce(); msg != "" {
		verdict = "REPRODUCED " + msg
	}
	fmt.Println("GOVC-REPLAY: " + verdict)
}
