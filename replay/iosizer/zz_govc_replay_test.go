package iosizer

// Replay driver for GoVC counterexamples (injected with go test -overlay; never written into /repo).
// The wrapped stream is scripted from the model: it returns the byte count the solver chose.

import (
	"encoding/json"
	"fmt"
	"os"
	"testing"
)

type govcStream struct{ n int }

func (g *govcStream) Read(p []byte) (int, error)  { return g.n, nil }
func (g *govcStream) Write(p []byte) (int, error) { return g.n, nil }

func TestGovcReplay(t *testing.T) {
	path := os.Getenv("GOVC_REPLAY_FILE")
	if path == "" {
		t.Skip("no replay file")
	}
	raw, err := os.ReadFile(path)
	if err != nil {
		t.Fatal(err)
	}
	var rf struct {
		Function string `json:"function"`
		Inputs   struct {
			P struct {
				Len int `json:"len"`
			} `json:"p"`
			N int `json:"env.io1.n"`
		} `json:"inputs"`
	}
	if err := json.Unmarshal(raw, &rf); err != nil {
		t.Fatal(err)
	}
	verdict := "NOT-REPRODUCED"
	n, plen := rf.Inputs.N, rf.Inputs.P.Len
	if plen < n {
		plen = n
	}
	if plen > 1<<34 {
		fmt.Println("GOVC-REPLAY: UNSUPPORTED buffer of", plen, "bytes is too large to allocate")
		return
	}
	// the buffer is never touched, so its pages are never committed
	buf := make([]byte, plen)
	st := &govcStream{n: n}
	s := NewSizeReadWriter(st, st)
	before := s.TotalSize()
	var got int
	switch rf.Function {
	case "(*SizeReadWriter).Read":
		got, _ = s.Read(buf)
	case "(*SizeReadWriter).Write":
		got, _ = s.Write(buf)
	default:
		fmt.Println("GOVC-REPLAY: UNSUPPORTED function " + rf.Function)
		return
	}
	want := before
	if got > 0 {
		want += uint64(got)
	}
	if s.TotalSize() != want {
		verdict = fmt.Sprintf("REPRODUCED %s with a %d-byte buffer returned n=%d but TotalSize() went from %d to %d (expected %d)", rf.Function, plen, got, before, s.TotalSize(), want)
	}
	fmt.Println("GOVC-REPLAY: " + verdict)
}
