package commonprefix

// Replay driver for GoVC counterexamples (injected with go test -overlay; never written into /repo).

import (
	"encoding/json"
	"fmt"
	"os"
	"testing"
)

func govcLCP(strs []string) string {
	if len(strs) == 0 {
		return ""
	}
	p := strs[0]
	for _, s := range strs[1:] {
		n := 0
		for n < len(p) && n < len(s) && p[n] == s[n] {
			n++
		}
		p = p[:n]
	}
	return p
}

func TestGovcReplay(t *testing.T) {
	path := os.Getenv("GOVC_REPLAY_FILE")
	if path == "" {
		t.Skip("no replay file")
	}
	raw, err := os.ReadFile(path)
	if err != nil {
		t.Fatal(err)
	}
	var rf struct {
		Function string `json:"function"`
		Inputs   struct {
			Strs struct {
				Len   int     `json:"len"`
				Elems [][]int `json:"elems"`
			} `json:"strs"`
		} `json:"inputs"`
	}
	if err := json.Unmarshal(raw, &rf); err != nil {
		t.Fatal(err)
	}
	var strs []string
	for _, e := range rf.Inputs.Strs.Elems {
		b := make([]byte, len(e))
		for i, x := range e {
			b[i] = byte(x)
		}
		strs = append(strs, string(b))
	}
	verdict := "NOT-REPRODUCED"
	func() {
		defer func() {
			if r := recover(); r != nil {
				verdict = fmt.Sprintf("REPRODUCED %s(%q) panicked: %v", rf.Function, strs, r)
			}
		}()
		want := govcLCP(strs)
		switch rf.Function {
		case "Prefix":
			got := Prefix(strs...)
			if got != want {
				verdict = fmt.Sprintf("REPRODUCED Prefix(%q) = %q, longest common prefix is %q", strs, got, want)
			}
		case "TrimPrefix":
			in := append([]string(nil), strs...)
			TrimPrefix(in...)
			for i := range strs {
				if in[i] != strs[i][len(want):] {
					verdict = fmt.Sprintf("REPRODUCED TrimPrefix(%q) gives %q, expected removal of %q", strs, in, want)
				}
			}
		default:
			verdict = "UNSUPPORTED function " + rf.Function
		}
	}()
	fmt.Println("GOVC-REPLAY: " + verdict)
}
