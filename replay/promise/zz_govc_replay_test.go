package promise

// Replay driver for GoVC findings in promise (injected with go test -overlay; never written into /repo).
// Failed obligations of the concurrency proofs come without an input.
// The driver maps the failed obligation to the scenario that the broken obligation rules out and runs it
// against the real code.
// Oracles use the public API only.

import (
	"context"
	"encoding/json"
	"errors"
	"fmt"
	"os"
	"runtime"
	"strings"
	"sync"
	"sync/atomic"
	"syscall"
	"testing"
	"time"
)

const govcGrace = 400 * time.Millisecond

func govcCPU() time.Duration {
	var ru syscall.Rusage
	_ = syscall.Getrusage(syscall.RUSAGE_SELF, &ru)
	return time.Duration(ru.Utime.Nano() + ru.Stime.Nano())
}

// an awaiter of a container whose current promise resolved with context.Canceled must return that result
func govcCanceledResult(which string) string {
	pc := NewPromiseContainer[int]()
	pc.SetResult(7, context.Canceled)
	type res struct {
		v   int
		err error
	}
	done := make(chan res, 1)
	ctx, cancel := context.WithCancel(context.Background())
	defer cancel()
	cpu0 := govcCPU()
	go func() {
		var v int
		var err error
		switch which {
		case "AwaitWithErrCh":
			v, err = pc.AwaitWithErrCh(ctx, nil)
		case "AwaitWithCancelCh":
			v, err = pc.AwaitWithCancelCh(ctx, nil)
		default:
			v, err = pc.Await(ctx)
		}
		done <- res{v, err}
	}()
	select {
	case r := <-done:
		if r.err != context.Canceled || r.v != 7 {
			return fmt.Sprintf("%s returned (%v, %v) for the result (7, context.Canceled)", which, r.v, r.err)
		}
		return ""
	case <-time.After(govcGrace):
		cpu := govcCPU() - cpu0
		cancel()
		<-done
		return fmt.Sprintf("PromiseContainer.%s did not return the result (7, context.Canceled) within %v with a live context; it burned %v of CPU meanwhile (busy loop)", which, govcGrace, cpu.Round(time.Millisecond))
	}
}

// an awaiter of a container holding a pending promise must return when its own channel fires
func govcOwnChannel(which string) string {
	pc := NewPromiseContainer[int]()
	pc.SetPromise(NewPromise[int]())
	done := make(chan error, 1)
	ctx, cancel := context.WithCancel(context.Background())
	defer cancel()
	boom := errors.New("boom")
	errCh := make(chan error, 1)
	cancelCh := make(chan struct{})
	go func() {
		var err error
		if which == "AwaitWithErrCh" {
			_, err = pc.AwaitWithErrCh(ctx, errCh)
		} else {
			_, err = pc.AwaitWithCancelCh(ctx, cancelCh)
		}
		done <- err
	}()
	time.Sleep(30 * time.Millisecond)
	errCh <- boom
	close(cancelCh)
	select {
	case <-done:
		return ""
	case <-time.After(govcGrace):
		cancel()
		<-done
		return fmt.Sprintf("PromiseContainer.%s with a pending promise set stayed blocked for %v after its channel fired (it returned only when ctx was cancelled)", which, govcGrace)
	}
}

// a waiter parked on an empty container must see a promise that is set later, and follow a replacement
func govcFollow() string {
	pc := NewPromiseContainer[int]()
	done := make(chan int, 1)
	go func() { v, _ := pc.Await(context.Background()); done <- v }()
	time.Sleep(20 * time.Millisecond)
	p1 := NewPromise[int]()
	pc.SetPromise(p1)
	time.Sleep(20 * time.Millisecond)
	p2 := NewPromise[int]()
	pc.SetPromise(p2)
	time.Sleep(20 * time.Millisecond)
	p2.SetResult(2, nil)
	select {
	case v := <-done:
		if v != 2 {
			return fmt.Sprintf("awaiter returned %d, the current promise resolved with 2", v)
		}
		return ""
	case <-time.After(govcGrace):
		p1.SetResult(1, nil)
		return "awaiter did not follow the replacement: still blocked after the current promise resolved"
	}
}

// exactly one SetResult wins and every awaiter sees the winner's value
func govcSingleAssignment() string {
	for round := 0; round < 300; round++ {
		p := NewPromise[int]()
		var wins atomic.Int32
		var winner atomic.Int32
		var wg sync.WaitGroup
		for i := 1; i <= 4; i++ {
			i := i
			wg.Add(1)
			go func() {
				defer wg.Done()
				if p.SetResult(i, nil) {
					wins.Add(1)
					winner.Store(int32(i))
				}
			}()
		}
		got := make(chan int, 3)
		for i := 0; i < 3; i++ {
			go func() { v, _ := p.Await(context.Background()); got <- v }()
		}
		wg.Wait()
		if wins.Load() != 1 {
			return fmt.Sprintf("%d SetResult calls returned true on one promise", wins.Load())
		}
		for i := 0; i < 3; i++ {
			select {
			case v := <-got:
				if int32(v) != winner.Load() {
					return fmt.Sprintf("an awaiter saw %d, the winning SetResult stored %d", v, winner.Load())
				}
			case <-time.After(govcGrace):
				return "an awaiter stayed blocked after SetResult returned true"
			}
		}
	}
	return ""
}

func govcAwaitSources() string {
	p := NewPromise[int]()
	ctx, cancel := context.WithCancel(context.Background())
	done := make(chan error, 3)
	errCh := make(chan error, 1)
	cancelCh := make(chan struct{})
	go func() { _, err := p.Await(ctx); done <- err }()
	go func() { _, err := p.AwaitWithErrCh(context.Background(), errCh); done <- err }()
	go func() { _, err := p.AwaitWithCancelCh(context.Background(), cancelCh); done <- err }()
	time.Sleep(20 * time.Millisecond)
	cancel()
	errCh <- errors.New("x")
	close(cancelCh)
	for i := 0; i < 3; i++ {
		select {
		case err := <-done:
			if err == nil {
				return "an await on an unresolved promise returned nil"
			}
		case <-time.After(govcGrace):
			p.SetResult(0, nil)
			return "an await did not return although its context / channel fired"
		}
	}
	return ""
}

// ---- Once ----

// never two calls at once; a success is kept: later and concurrent Resolves get it, no further call
func govcOnceSuccess() string {
	var active, calls atomic.Int32
	var overlap atomic.Bool
	o := NewOnce(func(ctx context.Context) (int, error) {
		if active.Add(1) > 1 {
			overlap.Store(true)
		}
		time.Sleep(2 * time.Millisecond)
		active.Add(-1)
		return int(calls.Add(1)), nil
	})
	var wg sync.WaitGroup
	bad := make(chan string, 16)
	for i := 0; i < 8; i++ {
		wg.Add(1)
		go func() {
			defer wg.Done()
			for k := 0; k < 5; k++ {
				v, err := o.Resolve(context.Background())
				if err != nil || v != 1 {
					bad <- fmt.Sprintf("Resolve returned (%d, %v); the first successful call returned 1", v, err)
					return
				}
			}
		}()
	}
	wg.Wait()
	select {
	case m := <-bad:
		return m
	default:
	}
	if overlap.Load() {
		return "the function of a Once was running twice at the same time"
	}
	if calls.Load() != 1 {
		return fmt.Sprintf("the function was called %d times although its first call succeeded", calls.Load())
	}
	return ""
}

// after an error a later Resolve calls again; concurrent resolvers never see an older error after a newer one
func govcOnceRetry() string {
	var calls atomic.Int32
	o := NewOnce(func(ctx context.Context) (int, error) {
		return 0, fmt.Errorf("%d", calls.Add(1))
	})
	bad := make(chan string, 16)
	var wg sync.WaitGroup
	for g := 0; g < 8; g++ {
		wg.Add(1)
		go func() {
			defer wg.Done()
			last := 0
			for k := 0; k < 300; k++ {
				_, err := o.Resolve(context.Background())
				if err == nil {
					bad <- "Resolve returned nil although the function always fails"
					return
				}
				var n int
				fmt.Sscan(err.Error(), &n)
				if n <= last {
					bad <- fmt.Sprintf("a Resolve started after failure %d had been returned was served failure %d again: the function was not called again", last, n)
					return
				}
				last = n
			}
		}()
	}
	wg.Wait()
	select {
	case m := <-bad:
		return m
	default:
	}
	return ""
}

// the initiator is cancelled: it gets context.Canceled, the others still obtain a result
func govcOnceInitiatorCancelled() string {
	var calls atomic.Int32
	o := NewOnce(func(ctx context.Context) (int, error) {
		if calls.Add(1) == 1 {
			<-ctx.Done()
			return 0, ctx.Err()
		}
		return 42, nil
	})
	actx, acancel := context.WithCancel(context.Background())
	ares := make(chan error, 1)
	go func() { _, err := o.Resolve(actx); ares <- err }()
	time.Sleep(30 * time.Millisecond)
	type r struct {
		v   int
		err error
	}
	res := make(chan r, 3)
	for i := 0; i < 3; i++ {
		go func() { v, err := o.Resolve(context.Background()); res <- r{v, err} }()
	}
	time.Sleep(30 * time.Millisecond)
	acancel()
	select {
	case err := <-ares:
		if err != context.Canceled {
			return fmt.Sprintf("the cancelled caller got %v, want context.Canceled", err)
		}
	case <-time.After(govcGrace):
		return "the cancelled caller did not return"
	}
	for i := 0; i < 3; i++ {
		select {
		case x := <-res:
			if x.err != nil || x.v != 42 {
				return fmt.Sprintf("a caller with a live context got (%d, %v) after the initiator was cancelled; want (42, nil)", x.v, x.err)
			}
		case <-time.After(govcGrace):
			return "a caller with a live context stayed blocked after the initiator was cancelled"
		}
	}
	return ""
}

// as above, but the function reports its interruption with an error of its own
func govcOnceInitiatorCancelledOwnErr() string {
	var calls atomic.Int32
	o := NewOnce(func(ctx context.Context) (int, error) {
		if calls.Add(1) == 1 {
			<-ctx.Done()
			return 0, errors.New("fetch interrupted")
		}
		return 42, nil
	})
	actx, acancel := context.WithCancel(context.Background())
	ares := make(chan error, 1)
	go func() { _, err := o.Resolve(actx); ares <- err }()
	time.Sleep(30 * time.Millisecond)
	type r struct {
		v   int
		err error
	}
	res := make(chan r, 3)
	for i := 0; i < 3; i++ {
		go func() { v, err := o.Resolve(context.Background()); res <- r{v, err} }()
	}
	time.Sleep(30 * time.Millisecond)
	acancel()
	select {
	case err := <-ares:
		if err != context.Canceled {
			return fmt.Sprintf("the cancelled caller got %v, want context.Canceled", err)
		}
	case <-time.After(govcGrace):
		return "the cancelled caller did not return"
	}
	for i := 0; i < 3; i++ {
		select {
		case x := <-res:
			if x.err != nil || x.v != 42 {
				return fmt.Sprintf("a caller with a live context got (%d, %v) after the initiator was cancelled; want (42, nil)", x.v, x.err)
			}
		case <-time.After(govcGrace):
			return "a caller with a live context stayed blocked after the initiator was cancelled"
		}
	}
	return ""
}


// the function succeeds after the initiator has left: the success is kept
func govcOnceLateSuccess() string {
	var calls atomic.Int32
	release := make(chan struct{})
	o := NewOnce(func(ctx context.Context) (int, error) {
		n := calls.Add(1)
		if n == 1 {
			<-release
		}
		return 100 + int(n), nil
	})
	actx, acancel := context.WithCancel(context.Background())
	go func() { _, _ = o.Resolve(actx) }()
	time.Sleep(30 * time.Millisecond)
	bres := make(chan int, 1)
	go func() { v, _ := o.Resolve(context.Background()); bres <- v }()
	time.Sleep(30 * time.Millisecond)
	acancel()
	time.Sleep(30 * time.Millisecond)
	close(release)
	select {
	case v := <-bres:
		if v != 101 || calls.Load() != 1 {
			return fmt.Sprintf("the function returned (101, nil) after its initiator had been cancelled; a waiter got %d and the function was called %d times", v, calls.Load())
		}
	case <-time.After(govcGrace):
		return "a waiter stayed blocked although the function returned successfully"
	}
	if v, _ := o.Resolve(context.Background()); v != 101 || calls.Load() != 1 {
		return fmt.Sprintf("a later Resolve got %d (calls=%d) after a successful call returned 101", v, calls.Load())
	}
	return ""
}

func TestGovcReplay(t *testing.T) {
	path := os.Getenv("GOVC_REPLAY_FILE")
	if path == "" {
		t.Skip("no replay file")
	}
	raw, err := os.ReadFile(path)
	if err != nil {
		t.Fatal(err)
	}
	var rf struct {
		Obligation string `json:"obligation"`
	}
	_ = json.Unmarshal(raw, &rf)
	runtime.GOMAXPROCS(4)
	which := "Await"
	for _, w := range []string{"AwaitWithErrCh", "AwaitWithCancelCh"} {
		if strings.Contains(rf.Obligation, ")."+w+"#") {
			which = w
		}
	}
	var scenarios []func() string
	switch {
	case strings.Contains(rf.Obligation, "Once)") || strings.Contains(rf.Obligation, "NewOnce"):
		scenarios = append(scenarios, govcOnceSuccess, govcOnceRetry, govcOnceInitiatorCancelled, govcOnceInitiatorCancelledOwnErr, govcOnceLateSuccess)
	case strings.Contains(rf.Obligation, "PromiseContainer") && strings.Contains(rf.Obligation, "backedge"):
		scenarios = append(scenarios, func() string { return govcCanceledResult(which) })
	case strings.Contains(rf.Obligation, "PromiseContainer") && strings.Contains(rf.Obligation, "invoke1"):
		scenarios = append(scenarios, func() string { return govcOwnChannel(which) }, govcFollow)
	case strings.Contains(rf.Obligation, "PromiseContainer"):
		scenarios = append(scenarios, govcFollow, func() string { return govcCanceledResult(which) }, func() string { return govcOwnChannel("AwaitWithErrCh") })
	default:
		scenarios = append(scenarios, govcSingleAssignment, govcAwaitSources, govcOnceSuccess, govcOnceRetry)
	}
	verdict := "NOT-REPRODUCED"
	for _, s := range scenarios {
		if msg := s(); msg != "" {
			verdict = "REPRODUCED " + msg
			break
		}
	}
	fmt.Println("GOVC-REPLAY: " + verdict)
}
