package ccall

// Replay driver for GoVC findings in ccall (injected with go test -overlay; never written into /repo).
// The driver maps the failed obligation to the scenario that the broken obligation rules out.
// govc-replay: needs -race   (the unlocked read of the shared counter is observed by the race detector)

import (
	"context"
	"encoding/json"
	"errors"
	"fmt"
	"os"
	"strings"
	"sync/atomic"
	"testing"
	"time"
)

func TestGovcReplay(t *testing.T) {
	path := os.Getenv("GOVC_REPLAY_FILE")
	if path == "" {
		t.Skip("no replay file")
	}
	raw, err := os.ReadFile(path)
	if err != nil {
		t.Fatal(err)
	}
	var rf struct {
		Obligation string `json:"obligation"`
	}
	_ = json.Unmarshal(raw, &rf)
	verdict := "NOT-REPRODUCED"
	if strings.Contains(rf.Obligation, "nilfunc") || strings.Contains(rf.Obligation, "nilderef") {
		func() {
			defer func() {
				if r := recover(); r != nil {
					verdict = fmt.Sprintf("REPRODUCED CallConcurrently(ctx, nil) panicked: %v", r)
				}
			}()
			_ = CallConcurrently(context.Background(), nil)
			_ = CallConcurrently(context.Background(), nil, nil)
		}()
		fmt.Println("GOVC-REPLAY: " + verdict)
		return
	}
	// outcome oracle + many short runs (under -race the unlocked read is reported by the race detector)
	boom := errors.New("boom")
	deadline := time.Now().Add(3 * time.Second)
	for i := 0; time.Now().Before(deadline) && verdict == "NOT-REPRODUCED"; i++ {
		var ran atomic.Int32
		fns := []CallConcurrentlyFunc{
			func(ctx context.Context) error { ran.Add(1); return boom },
			func(ctx context.Context) error { ran.Add(1); return boom },
			nil,
		}
		// (the call may return before this function has run: publish the context through an atomic)
		var inner atomic.Pointer[context.Context]
		fns = append(fns, func(ctx context.Context) error { inner.Store(&ctx); ran.Add(1); return nil })
		err := CallConcurrently(context.Background(), fns...)
		if err == nil {
			verdict = "REPRODUCED CallConcurrently returned nil although two functions returned an error"
		} else if err != boom {
			verdict = fmt.Sprintf("REPRODUCED CallConcurrently returned %v, which no function returned", err)
		}
		if ic := inner.Load(); ic != nil && (*ic).Err() == nil {
			verdict = "REPRODUCED the context given to the functions is not cancelled after CallConcurrently returned"
		}
		var single context.Context
		_ = CallConcurrently(context.Background(), func(ctx context.Context) error { single = ctx; return nil })
		if single == nil || single.Err() == nil {
			verdict = "REPRODUCED the context given to a single function is not cancelled after CallConcurrently returned"
		}
		ok := CallConcurrently(context.Background(),
			func(ctx context.Context) error { return nil }, func(ctx context.Context) error { time.Sleep(time.Microsecond); return nil })
		if ok != nil {
			verdict = fmt.Sprintf("REPRODUCED all functions returned nil but CallConcurrently returned %v", ok)
		}
	}
	fmt.Println("GOVC-REPLAY: " + verdict)
}
