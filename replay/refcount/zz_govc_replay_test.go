package refcount

// Replay driver for GoVC findings in refcount (injected with go test -overlay; never written into /repo).
// Failed obligations of the monitor proofs come without an input.
// The driver maps the failed obligation to the scenario that the broken obligation rules out and runs it
// against the real code through the public API. Lock-discipline obligations run under the race detector.
// govc-replay: needs -race

import (
	"context"
	"encoding/json"
	"errors"
	"fmt"
	"os"
	"strings"
	"sync"
	"sync/atomic"
	"testing"
	"time"
)

const govcStep = 30 * time.Millisecond

// SetContext x3 while the first resolver call is slow to return: never two resolver calls at once
func govcResolverOverlap() string {
	var active, maxActive atomic.Int32
	hold := make(chan struct{})
	var first atomic.Bool
	rc := NewRefCount[*int](nil, false, nil, nil, func(ctx context.Context, released func()) (*int, func(), error) {
		n := active.Add(1)
		for {
			m := maxActive.Load()
			if n <= m || maxActive.CompareAndSwap(m, n) {
				break
			}
		}
		if !first.Swap(true) {
			<-ctx.Done()
			<-hold
		}
		active.Add(-1)
		v := 1
		return &v, nil, nil
	})
	rc.AddRef(func(bool, *int, error) {})
	for i := 0; i < 3; i++ {
		c, cc := context.WithCancel(context.Background())
		defer cc()
		rc.SetContext(c)
		time.Sleep(govcStep)
	}
	time.Sleep(2 * govcStep)
	m := maxActive.Load()
	close(hold)
	if m > 1 {
		return fmt.Sprintf("SetContext x3 while the first resolver call was still returning: %d resolver calls were running at the same time", m)
	}
	return ""
}

// documented arguments never panic: nil callback on a resolved RefCount
func govcNilCallback() (msg string) {
	defer func() {
		if r := recover(); r != nil {
			msg = fmt.Sprintf("AddRef(nil) on a resolved RefCount panicked: %v", r)
		}
	}()
	rc := NewRefCount[*int](context.Background(), true, nil, nil, func(ctx context.Context, released func()) (*int, func(), error) {
		v := 1
		return &v, nil, nil
	})
	ctx, cancel := context.WithTimeout(context.Background(), time.Second)
	defer cancel()
	if _, _, err := rc.Resolve(ctx); err != nil {
		return "Resolve failed: " + err.Error()
	}
	rc.AddRef(nil).Release()
	rc2 := NewRefCount[*int](nil, false, nil, nil, func(ctx context.Context, released func()) (*int, func(), error) { return nil, nil, errors.New("x") })
	rc2.AddRef(nil)
	rc2.SetContext(context.Background())
	time.Sleep(govcStep)
	rc2.ClearContext()
	return ""
}

// every value handed out by the resolver is released exactly once, and not while it is the current value of a held reference
func govcReleaseOnce() string {
	var mu sync.Mutex
	released := map[int]int{}
	next := 0
	var invalidate []func()
	rc := NewRefCount[*int](context.Background(), false, nil, nil, func(ctx context.Context, rel func()) (*int, func(), error) {
		mu.Lock()
		next++
		id := next
		invalidate = append(invalidate, rel)
		mu.Unlock()
		v := id
		return &v, func() { mu.Lock(); released[id]++; mu.Unlock() }, nil
	})
	ctx, cancel := context.WithTimeout(context.Background(), 2*time.Second)
	defer cancel()
	v1, ref1, err := rc.Wait(ctx)
	if err != nil {
		return "Wait failed: " + err.Error()
	}
	mu.Lock()
	r := released[*v1]
	mu.Unlock()
	if r != 0 {
		return fmt.Sprintf("value %d was released while a reference that received it was still held", *v1)
	}
	mu.Lock()
	inv := invalidate[0]
	mu.Unlock()
	inv() // the value becomes invalid: dropped and resolved afresh
	time.Sleep(govcStep)
	v2, ref2, err := rc.Wait(ctx)
	if err != nil {
		return "Wait failed: " + err.Error()
	}
	if *v2 == *v1 {
		return "released() did not make the value be resolved afresh"
	}
	ref1.Release()
	ref1.Release()
	ref2.Release()
	time.Sleep(govcStep)
	rc.ClearContext()
	time.Sleep(govcStep)
	mu.Lock()
	defer mu.Unlock()
	for id := 1; id <= next; id++ {
		if released[id] != 1 {
			return fmt.Sprintf("the release function of value %d was called %d times", id, released[id])
		}
	}
	return ""
}

func TestGovcReplay(t *testing.T) {
	path := os.Getenv("GOVC_REPLAY_FILE")
	if path == "" {
		t.Skip("no replay file")
	}
	raw, _ := os.ReadFile(path)
	var rf struct {
		Obligation string `json:"obligation"`
	}
	_ = json.Unmarshal(raw, &rf)
	scenarios := []func() string{govcNilCallback, govcResolverOverlap, govcReleaseOnce}
	switch {
	case strings.Contains(rf.Obligation, "nilfunc") || strings.Contains(rf.Obligation, "nilderef"):
		scenarios = []func() string{govcNilCallback}
	case strings.Contains(rf.Obligation, ".D1") || strings.Contains(rf.Obligation, "handover") || strings.Contains(rf.Obligation, "go1"):
		scenarios = []func() string{govcResolverOverlap}
	}
	verdict := "NOT-REPRODUCED"
	for _, s := range scenarios {
		if msg := s(); msg != "" {
			verdict = "REPRODUCED " + msg
			break
		}
	}
	fmt.Println("GOVC-REPLAY: " + verdict)
}
