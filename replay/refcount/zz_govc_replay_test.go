package refcount

// Replay driver for GoVC findings in refcount (injected with go test -overlay; never written into /repo).
// Failed obligations of the monitor proofs come without an input.
// The driver maps the failed obligation to the scenario that the broken obligation rules out and runs it
// against the real code through the public API. Lock-discipline obligations run under the race detector.
// govc-replay: needs -race

import (
	"context"
	"encoding/json"
	"errors"
	"fmt"
	"os"
	"strings"
	"sync"
	"sync/atomic"
	"testing"
	"time"
)

const govcStep = 30 * time.Millisecond

// SetContext x3 while the first resolver call is slow to return: never two resolver calls at once
func govcResolverOverlap() string {
	var active, maxActive atomic.Int32
	hold := make(chan struct{})
	var first atomic.Bool
	rc := NewRefCount[*int](nil, false, nil, nil, func(ctx context.Context, released func()) (*int, func(), error) {
		n := active.Add(1)
		for {
			m := maxActive.Load()
			if n <= m || maxActive.CompareAndSwap(m, n) {
				break
			}
		}
		if !first.Swap(true) {
			<-ctx.Done()
			<-hold
		}
		active.Add(-1)
		v := 1
		return &v, nil, nil
	})
	rc.AddRef(func(bool, *int, error) {})
	for i := 0; i < 3; i++ {
		c, cc := context.WithCancel(context.Background())
		defer cc()
		rc.SetContext(c)
		time.Sleep(govcStep)
	}
	time.Sleep(2 * govcStep)
	m := maxActive.Load()
	close(hold)
	if m > 1 {
		return fmt.Sprintf("SetContext x3 while the first resolver call was still returning: %d resolver calls were running at the same time", m)
	}
	return ""
}

// the chain of resolver calls survives a phase without context: ClearContext while a resolver call is still
// returning, then SetContext again
func govcResolverOverlapIdle() string {
	var active, maxActive atomic.Int32
	hold := make(chan struct{})
	var first atomic.Bool
	rc := NewRefCount[*int](nil, false, nil, nil, func(ctx context.Context, released func()) (*int, func(), error) {
		n := active.Add(1)
		for {
			m := maxActive.Load()
			if n <= m || maxActive.CompareAndSwap(m, n) {
				break
			}
		}
		if !first.Swap(true) {
			<-ctx.Done()
			<-hold
		}
		active.Add(-1)
		v := 1
		return &v, nil, nil
	})
	rc.AddRef(func(bool, *int, error) {})
	c1, cc1 := context.WithCancel(context.Background())
	defer cc1()
	rc.SetContext(c1)
	time.Sleep(govcStep)
	rc.ClearContext()
	time.Sleep(govcStep)
	c2, cc2 := context.WithCancel(context.Background())
	defer cc2()
	rc.SetContext(c2)
	time.Sleep(3 * govcStep)
	m := maxActive.Load()
	close(hold)
	if m > 1 {
		return fmt.Sprintf("SetContext; ClearContext while the resolver call was still returning; SetContext: %d resolver calls were running at the same time", m)
	}
	return ""
}

// a value resolved under one context is not handed out under another one (keepUnref, no references while
// the context changes)
func govcStaleAcrossContexts() string {
	var calls atomic.Int32
	rc := NewRefCount[*int](nil, true, nil, nil, func(ctx context.Context, released func()) (*int, func(), error) {
		v := int(calls.Add(1))
		return &v, nil, nil
	})
	c1, cc1 := context.WithCancel(context.Background())
	rc.SetContext(c1)
	wctx, wc := context.WithTimeout(context.Background(), 2*time.Second)
	defer wc()
	v1, ref, err := rc.Wait(wctx)
	if err != nil || v1 == nil {
		return ""
	}
	ref.Release()
	c2, cc2 := context.WithCancel(context.Background())
	defer cc2()
	rc.SetContext(c2)
	cc1()
	v2, ref2, err := rc.Wait(wctx)
	if ref2 != nil {
		defer ref2.Release()
	}
	if err == nil && v2 == v1 {
		return "keepUnref: value resolved under context 1, last reference released, SetContext(context 2), context 1 cancelled: Wait returned the value resolved under context 1"
	}
	return ""
}

// documented arguments never panic: nil callback on a resolved RefCount
func govcNilCallback() (msg string) {
	defer func() {
		if r := recover(); r != nil {
			msg = fmt.Sprintf("AddRef(nil) on a resolved RefCount panicked: %v", r)
		}
	}()
	rc := NewRefCount[*int](context.Background(), true, nil, nil, func(ctx context.Context, released func()) (*int, func(), error) {
		v := 1
		return &v, nil, nil
	})
	ctx, cancel := context.WithTimeout(context.Background(), time.Second)
	defer cancel()
	if _, _, err := rc.Resolve(ctx); err != nil {
		return "Resolve failed: " + err.Error()
	}
	rc.AddRef(nil).Release()
	rc2 := NewRefCount[*int](nil, false, nil, nil, func(ctx context.Context, released func()) (*int, func(), error) { return nil, nil, errors.New("x") })
	rc2.AddRef(nil)
	rc2.SetContext(context.Background())
	time.Sleep(govcStep)
	rc2.ClearContext()
	return ""
}

// every value handed out by the resolver is released exactly once, and not while it is the current value of a held reference
func govcReleaseOnce() string {
	var mu sync.Mutex
	released := map[int]int{}
	next := 0
	var invalidate []func()
	rc := NewRefCount[*int](context.Background(), false, nil, nil, func(ctx context.Context, rel func()) (*int, func(), error) {
		mu.Lock()
		next++
		id := next
		invalidate = append(invalidate, rel)
		mu.Unlock()
		v := id
		return &v, func() { mu.Lock(); released[id]++; mu.Unlock() }, nil
	})
	ctx, cancel := context.WithTimeout(context.Background(), 2*time.Second)
	defer cancel()
	v1, ref1, err := rc.Wait(ctx)
	if err != nil {
		return "Wait failed: " + err.Error()
	}
	mu.Lock()
	r := released[*v1]
	mu.Unlock()
	if r != 0 {
		return fmt.Sprintf("value %d was released while a reference that received it was still held", *v1)
	}
	mu.Lock()
	inv := invalidate[0]
	mu.Unlock()
	inv() // the value becomes invalid: dropped and resolved afresh
	time.Sleep(govcStep)
	v2, ref2, err := rc.Wait(ctx)
	if err != nil {
		return "Wait failed: " + err.Error()
	}
	if *v2 == *v1 {
		return "released() did not make the value be resolved afresh"
	}
	ref1.Release()
	ref1.Release()
	ref2.Release()
	time.Sleep(govcStep)
	rc.ClearContext()
	time.Sleep(govcStep)
	mu.Lock()
	defer mu.Unlock()
	for id := 1; id <= next; id++ {
		if released[id] != 1 {
			return fmt.Sprintf("the release function of value %d was called %d times", id, released[id])
		}
	}
	return ""
}

func TestGovcReplay(t *testing.T) {
	path := os.Getenv("GOVC_REPLAY_FILE")
	if path == "" {
		t.Skip("no replay file")
	}
	raw, _ := os.ReadFile(path)
	var rf struct {
		Obligation string `json:"obligation"`
	}
	_ = json.Unmarshal(raw, &rf)
	scenarios := []func() string{govcNilCallback, govcResolverOverlap, govcReleaseOnce}
	switch {
	case strings.Contains(rf.Obligation, "nilfunc") || strings.Contains(rf.Obligation, "nilderef"):
		scenarios = []func() string{govcNilCallback}
	case strings.Contains(rf.Obligation, ".HD") || strings.Contains(rf.Obligation, "go1.chain"):
		scenarios = []func() string{govcResolverOverlapIdle, govcResolverOverlap}
	case strings.Contains(rf.Obligation, ".N6"):
		scenarios = []func() string{govcStaleAcrossContexts}
	case strings.Contains(rf.Obligation, ".D1") || strings.Contains(rf.Obligation, "handover") || strings.Contains(rf.Obligation, "go1"):
		scenarios = []func() string{govcResolverOverlap}
	}
	verdict := "NOT-REPRODUCED"
	for _, s := range scenarios {
		if msg := s(); msg != "" {
			verdict = "REPRODUCED " + msg
			break
		}
	}
	fmt.Println("GOVC-REPLAY: " + verdict)
}
