package routine

// Replay driver for GoVC findings in routine (injected with go test -overlay; never written into /repo).
// Failed obligations of the monitor proofs come without an input.
// The driver maps the failed obligation to the scenario that the broken obligation rules out and runs it
// against the real code. Oracles use the public API only: the managed function counts how many of its
// instances are inside it at the same time. Lock-discipline obligations are replayed under the race detector.
// govc-replay: needs -race

import (
	"context"
	"encoding/json"
	"errors"
	"fmt"
	"os"
	"strings"
	"sync"
	"sync/atomic"
	"testing"
	"time"
)

type govcProbe struct {
	active, max, runs atomic.Int32
	hold              chan struct{}
}

func newGovcProbe() *govcProbe { return &govcProbe{hold: make(chan struct{})} }

// instance that notices cancellation but (if slow) takes its time to return
func (p *govcProbe) routine(slow bool) Routine {
	return func(ctx context.Context) error {
		p.runs.Add(1)
		n := p.active.Add(1)
		for {
			m := p.max.Load()
			if n <= m || p.max.CompareAndSwap(m, n) {
				break
			}
		}
		<-ctx.Done()
		if slow {
			<-p.hold
		}
		p.active.Add(-1)
		return nil
	}
}

func (p *govcProbe) verdict(what string) string {
	m := p.max.Load()
	close(p.hold)
	if m > 1 {
		return fmt.Sprintf("%s: %d instances of the managed function were executing at the same time", what, m)
	}
	return ""
}

const govcStep = 30 * time.Millisecond

// SetRoutine(A slow to exit); SetRoutine(B); SetRoutine(C): B is cancelled while waiting for A
func govcThreeRoutines() string {
	p := newGovcProbe()
	rc := NewRoutineContainer()
	rc.SetContext(context.Background(), false)
	rc.SetRoutine(p.routine(true))
	time.Sleep(govcStep)
	rc.SetRoutine(p.routine(false))
	time.Sleep(govcStep)
	rc.SetRoutine(p.routine(false))
	time.Sleep(3 * govcStep)
	return p.verdict("SetRoutine(A, slow to exit); SetRoutine(B); SetRoutine(C)")
}

func govcSetNil() string {
	p := newGovcProbe()
	rc := NewRoutineContainer()
	rc.SetContext(context.Background(), false)
	rc.SetRoutine(p.routine(true))
	time.Sleep(govcStep)
	rc.SetRoutine(nil)
	rc.SetRoutine(p.routine(false))
	time.Sleep(3 * govcStep)
	return p.verdict("SetRoutine(A, slow to exit); SetRoutine(nil); SetRoutine(B)")
}

func govcClearContext() string {
	p := newGovcProbe()
	rc := NewRoutineContainer()
	rc.SetContext(context.Background(), false)
	rc.SetRoutine(p.routine(true))
	time.Sleep(govcStep)
	rc.ClearContext()
	rc.SetRoutine(p.routine(false))
	rc.SetContext(context.Background(), false)
	time.Sleep(3 * govcStep)
	return p.verdict("SetRoutine(A, slow to exit); ClearContext; SetRoutine(B); SetContext")
}

func govcRestarts() string {
	p := newGovcProbe()
	rc := NewRoutineContainer()
	rc.SetContext(context.Background(), false)
	rc.SetRoutine(p.routine(true))
	time.Sleep(govcStep)
	rc.RestartRoutine()
	time.Sleep(govcStep)
	rc.RestartRoutine()
	time.Sleep(govcStep)
	ctx2, cancel := context.WithCancel(context.Background())
	defer cancel()
	rc.SetContext(ctx2, true)
	time.Sleep(3 * govcStep)
	return p.verdict("SetRoutine(A, slow to exit); RestartRoutine x2; SetContext(other, restart)")
}

func govcWaitReturn() string {
	p := newGovcProbe()
	rc := NewRoutineContainer()
	rc.SetContext(context.Background(), false)
	rc.SetRoutine(p.routine(true))
	time.Sleep(govcStep)
	rc.SetRoutine(p.routine(false))
	time.Sleep(govcStep)
	wait, _ := rc.SetRoutine(p.routine(false))
	msg := ""
	select {
	case <-wait:
		if p.active.Load() > 0 {
			msg = "the channel returned by SetRoutine closed while an earlier instance was still executing"
		}
	case <-time.After(3 * govcStep):
	}
	close(p.hold)
	return msg
}

// concurrent SetState / SetContext on a StateRoutineContainer (lock discipline; also instance overlap)
func govcStateConcurrent() string {
	var active, max atomic.Int32
	s := NewStateRoutineContainer[int](func(a, b int) bool { return a == b })
	s.SetStateRoutine(func(ctx context.Context, st int) error {
		n := active.Add(1)
		for {
			m := max.Load()
			if n <= m || max.CompareAndSwap(m, n) {
				break
			}
		}
		<-ctx.Done()
		active.Add(-1)
		return nil
	})
	var wg sync.WaitGroup
	for g := 0; g < 4; g++ {
		g := g
		wg.Add(1)
		go func() {
			defer wg.Done()
			for i := 1; i < 300; i++ {
				if g%2 == 0 {
					s.SetState(i)
				} else if i%3 == 0 {
					s.ClearContext()
				} else {
					s.SetContext(context.Background(), true)
				}
			}
		}()
	}
	wg.Wait()
	if max.Load() > 1 {
		return fmt.Sprintf("concurrent SetState / SetContext: %d instances at the same time", max.Load())
	}
	return ""
}

// a succeeded routine must not be run again by a stale retry timer; retries continue after a context change
func govcRetry() string {
	var runs atomic.Int32
	rc := NewRoutineContainer(WithBackoff(&govcConstBackoff{d: 40 * time.Millisecond}))
	rc.SetContext(context.Background(), false)
	rc.SetRoutine(func(ctx context.Context) error { runs.Add(1); return errors.New("boom") })
	time.Sleep(10 * time.Millisecond)
	ctx2, c := context.WithCancel(context.Background())
	defer c()
	rc.SetContext(ctx2, false)
	time.Sleep(400 * time.Millisecond)
	if runs.Load() < 2 {
		return fmt.Sprintf("a failing routine with retry configured ran %d time(s) in 400 ms after SetContext(other, false): the retry was lost", runs.Load())
	}
	return ""
}

// a routine that returned nil is not run again by context changes; a failed one only with restart=true
func govcSuccessNotRerun() string {
	var runs atomic.Int32
	rc := NewRoutineContainer()
	rc.SetContext(context.Background(), false)
	rc.SetRoutine(func(ctx context.Context) error { runs.Add(1); return nil })
	time.Sleep(govcStep)
	ctx2, c2 := context.WithCancel(context.Background())
	defer c2()
	rc.SetContext(ctx2, true)
	rc.ClearContext()
	rc.SetContext(context.Background(), true)
	time.Sleep(govcStep)
	if n := runs.Load(); n != 1 {
		return fmt.Sprintf("a routine that returned nil was run %d times after SetContext(restart=true) / ClearContext", n)
	}
	var fruns atomic.Int32
	rf := NewRoutineContainer()
	rf.SetContext(context.Background(), false)
	rf.SetRoutine(func(ctx context.Context) error { fruns.Add(1); return errors.New("boom") })
	time.Sleep(govcStep)
	ctx3, c3 := context.WithCancel(context.Background())
	defer c3()
	rf.SetContext(ctx3, false)
	time.Sleep(govcStep)
	if n := fruns.Load(); n != 1 {
		return fmt.Sprintf("a failed routine without retry was run %d times after SetContext(other, restart=false)", n)
	}
	rf.SetContext(context.Background(), true)
	time.Sleep(govcStep)
	if n := fruns.Load(); n != 2 {
		return fmt.Sprintf("a failed routine was run %d times in total after SetContext(other, restart=true), want 2", n)
	}
	return ""
}

// govcExitWakes: a waiter blocked in WaitExited is woken by the exit of the current instance, also when the
// backoff gives up (NextBackOff() == Stop), and the exit callback sees every exit.
func govcExitWakes() string {
	var cbs atomic.Int32
	rc := NewRoutineContainer(WithBackoff(&govcConstBackoff{d: -1}), WithExitCb(func(err error) { cbs.Add(1) })) // -1 == backoff.Stop
	rc.SetContext(context.Background(), false)
	release := make(chan struct{})
	rc.SetRoutine(func(ctx context.Context) error { <-release; return errors.New("boom") })
	time.Sleep(20 * time.Millisecond)
	got := make(chan error, 1)
	wctx, cancel := context.WithTimeout(context.Background(), 2*time.Second)
	defer cancel()
	go func() { got <- rc.WaitExited(wctx, false, nil) }()
	time.Sleep(50 * time.Millisecond)
	close(release)
	err := <-got
	if err == nil || err.Error() != "boom" {
		return fmt.Sprintf("a routine failed after its backoff gave up while WaitExited was waiting: the waiter was not woken by the exit (it returned %v after its own 2 s timeout)", err)
	}
	time.Sleep(50 * time.Millisecond)
	if cbs.Load() != 1 {
		return fmt.Sprintf("one exit, %d exit callback calls", cbs.Load())
	}
	return ""
}

type govcConstBackoff struct{ d time.Duration }

func (b *govcConstBackoff) NextBackOff() time.Duration { return b.d }
func (b *govcConstBackoff) Reset()                      {}

func TestGovcReplay(t *testing.T) {
	path := os.Getenv("GOVC_REPLAY_FILE")
	if path == "" {
		t.Skip("no replay file")
	}
	raw, _ := os.ReadFile(path)
	var rf struct {
		Obligation string `json:"obligation"`
	}
	_ = json.Unmarshal(raw, &rf)
	all := []func() string{govcThreeRoutines, govcSetNil, govcClearContext, govcRestarts, govcWaitReturn, govcStateConcurrent}
	scenarios := all
	switch {
	case strings.Contains(rf.Obligation, "execute#") && strings.Contains(rf.Obligation, "E1"):
		scenarios = []func() string{govcThreeRoutines, govcWaitReturn}
	case strings.Contains(rf.Obligation, "setRoutineLocked#"):
		scenarios = []func() string{govcSetNil, govcClearContext, govcThreeRoutines}
	case strings.Contains(rf.Obligation, "StateRoutineContainer"):
		scenarios = []func() string{govcStateConcurrent}
	case strings.Contains(rf.Obligation, ".TE") || strings.Contains(rf.Obligation, "noexit"):
		scenarios = []func() string{govcExitWakes}
	case strings.Contains(rf.Obligation, ".T1") || strings.Contains(rf.Obligation, "execute$1$1") || strings.Contains(rf.Obligation, "rerun") || strings.Contains(rf.Obligation, "onlyrestart"):
		scenarios = []func() string{govcRetry, govcSuccessNotRerun}
	}
	verdict := "NOT-REPRODUCED"
	for _, s := range scenarios {
		if msg := s(); msg != "" {
			verdict = "REPRODUCED " + msg
			break
		}
	}
	fmt.Println("GOVC-REPLAY: " + verdict)
}
