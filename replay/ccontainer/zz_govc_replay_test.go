package ccontainer

// Replay driver for GoVC findings in ccontainer (injected with go test -overlay; never written into /repo).
// Failed obligations of the monitor proofs come without an input.
// The driver maps the failed obligation to the scenario that the broken obligation rules out and runs it
// against the real code through the public API.
// govc-replay: needs -race

import (
	"context"
	"fmt"
	"os"
	"testing"
	"time"
)

// govcRaceStress exercises the public API concurrently (the driver runs under the race detector: a data race
// inside the package is reported by the harness from the detector's output).
func govcRaceStress() string {
	c := NewCContainer[*int](nil)
	stop := make(chan struct{})
	done := make(chan struct{}, 8)
	worker := func(f func(i int)) {
		go func() {
			for i := 0; ; i++ {
				select {
				case <-stop:
					done <- struct{}{}
					return
				default:
					f(i)
				}
			}
		}()
	}
	worker(func(i int) { v := i; c.SetValue(&v) })
	worker(func(i int) { c.SetValue(nil) })
	worker(func(i int) { c.SwapValue(func(p *int) *int { return p }) })
	worker(func(i int) { c.GetValue() })
	for j := 0; j < 2; j++ {
		worker(func(i int) {
			ctx, cancel := context.WithTimeout(context.Background(), time.Millisecond)
			_, _ = c.WaitValue(ctx, nil)
			_ = c.WaitValueEmpty(ctx, nil)
			cancel()
		})
	}
	time.Sleep(400 * time.Millisecond)
	close(stop)
	for i := 0; i < 6; i++ {
		<-done
	}
	return ""
}

func TestGovcReplay(t *testing.T) {
	if os.Getenv("GOVC_REPLAY_FILE") == "" {
		t.Skip("no replay file")
	}
	verdict := "NOT-REPRODUCED"
	if msg := govcRaceStress(); msg != "" {
		verdict = "REPRODUCED " + msg
	}
	fmt.Println("GOVC-REPLAY: " + verdict)
}
