package ioproxy

// Replay driver for GoVC findings in ioproxy (injected with go test -overlay; never written into /repo).
// The driver maps the failed obligation to the scenario that the broken obligation rules out and runs it
// against the real code through the public API: full-duplex traffic through ProxyStreams (every byte must arrive,
// in order, in both directions), then closing one side (both sides closed, the callback called twice).

import (
	"bytes"
	"fmt"
	"io"
	"net"
	"sync"
	"sync/atomic"
	"testing"
	"time"
)

func govcDuplex() string {
	for round := 0; round < 3; round++ {
		a1, a2 := net.Pipe() // test end a1 <-> proxy end a2
		b1, b2 := net.Pipe() // proxy end b1 <-> test end b2
		var cbs atomic.Int32
		ProxyStreams(a2, b1, func() { cbs.Add(1) })
		const n, sz = 1500, 64
		msg := func(dir byte, i int) []byte {
			m := bytes.Repeat([]byte{dir}, sz)
			m[1], m[2], m[3] = byte(i), byte(i>>8), byte(i>>16)
			return m
		}
		var wg sync.WaitGroup
		errs := make(chan string, 4)
		send := func(c net.Conn, dir byte) {
			defer wg.Done()
			for i := 0; i < n; i++ {
				if _, err := c.Write(msg(dir, i)); err != nil {
					errs <- fmt.Sprintf("write %c: %v", dir, err)
					return
				}
			}
		}
		recv := func(c net.Conn, dir byte) {
			defer wg.Done()
			buf := make([]byte, sz)
			for i := 0; i < n; i++ {
				c.SetReadDeadline(time.Now().Add(5 * time.Second))
				if _, err := io.ReadFull(c, buf); err != nil {
					errs <- fmt.Sprintf("read %c message %d: %v", dir, i, err)
					return
				}
				if !bytes.Equal(buf, msg(dir, i)) {
					errs <- fmt.Sprintf("full-duplex traffic through ProxyStreams: message %d of direction %c arrived corrupted (got tag %c index %d)", i, dir, buf[0], int(buf[1])|int(buf[2])<<8)
					return
				}
			}
		}
		wg.Add(4)
		go send(a1, 'A')
		go send(b2, 'B')
		go recv(b2, 'A')
		go recv(a1, 'B')
		done := make(chan struct{})
		go func() { wg.Wait(); close(done) }()
		select {
		case e := <-errs:
			a1.Close()
			b2.Close()
			return e
		case <-done:
		case <-time.After(20 * time.Second):
			a1.Close()
			b2.Close()
			return "full-duplex traffic through ProxyStreams stalled"
		}
		select {
		case e := <-errs:
			return e
		default:
		}
		a1.Close()
		b2.SetReadDeadline(time.Now().Add(2 * time.Second))
		if _, err := b2.Read(make([]byte, 1)); err == nil {
			return "data after close"
		}
		deadline := time.Now().Add(2 * time.Second)
		for cbs.Load() != 2 && time.Now().Before(deadline) {
			time.Sleep(5 * time.Millisecond)
		}
		if c := cbs.Load(); c != 2 {
			return fmt.Sprintf("callback called %d times after one side closed, want 2", c)
		}
		b2.Close()
	}
	return ""
}

func TestGovcReplay(t *testing.T) {
	verdict := "NOT-REPRODUCED"
	if msg := govcDuplex(); msg != "" {
		verdict = "REPRODUCED " + msg
	}
	fmt.Println("GOVC-REPLAY: " + verdict)
}
