package linkedlist

// Replay driver for GoVC findings in linkedlist (injected with go test -overlay; never written into /repo).
// The driver maps the failed obligation to the scenario that the broken obligation rules out: the list is
// compared with a reference deque over a fixed sequence of operations that visits the empty, one-element
// and longer states through every method.

import (
	"fmt"
	"os"
	"testing"
)

func govcDeque() string {
	ll := NewLinkedList[int]()
	var ref []int
	check := func(step string) string {
		if ll.IsEmpty() != (len(ref) == 0) {
			return fmt.Sprintf("%s: IsEmpty()=%v, reference has %d elements", step, ll.IsEmpty(), len(ref))
		}
		h, ok := ll.Peek()
		if ok != (len(ref) > 0) || (ok && h != ref[0]) {
			return fmt.Sprintf("%s: Peek()=(%d,%v), reference %v", step, h, ok, ref)
		}
		tl, ok := ll.PeekTail()
		if ok != (len(ref) > 0) || (ok && tl != ref[len(ref)-1]) {
			return fmt.Sprintf("%s: PeekTail()=(%d,%v), reference %v", step, tl, ok, ref)
		}
		return ""
	}
	ops := []string{"pf", "p", "pop", "pop", "pop", "p", "pf", "pf", "p", "pop", "reset", "pf", "pop", "p", "p", "reset", "p", "pop", "pop", "pf", "p", "pop", "pop"}
	n := 0
	for i, op := range ops {
		n++
		step := fmt.Sprintf("step %d (%s)", i, op)
		switch op {
		case "p":
			ll.Push(n)
			ref = append(ref, n)
		case "pf":
			ll.PushFront(n)
			ref = append([]int{n}, ref...)
		case "pop":
			v, ok := ll.Pop()
			if ok != (len(ref) > 0) || (ok && v != ref[0]) {
				return fmt.Sprintf("%s: Pop()=(%d,%v), reference %v", step, v, ok, ref)
			}
			if ok {
				ref = ref[1:]
			}
		case "reset":
			ll.Reset()
			ref = nil
		}
		if msg := check(step); msg != "" {
			return msg
		}
	}
	l2 := NewLinkedList(1, 2, 3)
	for want := 1; want <= 3; want++ {
		if v, ok := l2.Pop(); !ok || v != want {
			return fmt.Sprintf("NewLinkedList(1,2,3): Pop()=(%d,%v), want %d", v, ok, want)
		}
	}
	return ""
}

func TestGovcReplay(t *testing.T) {
	if os.Getenv("GOVC_REPLAY_FILE") == "" {
		t.Skip("no replay file")
	}
	verdict := "NOT-REPRODUCED"
	if msg := govcDeque(); msg != "" {
		verdict = "REPRODUCED " + msg
	}
	fmt.Println("GOVC-REPLAY: " + verdict)
}
