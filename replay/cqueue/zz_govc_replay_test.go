package cqueue

// Replay driver for GoVC findings in cqueue (injected with go test -overlay; never written into /repo).
// Failed obligations of the lock-free proofs come without an input.
// The driver maps the failed obligation to the scenario that the broken obligation rules out and runs it
// against the real code: sequential LIFO order, then a concurrent conservation check (every pushed value
// is popped exactly once, nothing else is ever returned), the latter under the race detector.
// govc-replay: needs -race

import (
	"fmt"
	"os"
	"sync"
	"sync/atomic"
	"testing"
	"time"
)

func govcSequential() string {
	var q AtomicLIFO[int]
	if v := q.Pop(); v != 0 {
		return fmt.Sprintf("Pop on an empty stack returned %d", v)
	}
	for i := 1; i <= 5; i++ {
		q.Push(i)
	}
	for i := 5; i >= 1; i-- {
		if v := q.Pop(); v != i {
			return fmt.Sprintf("sequential Push 1..5 then Pop: got %d, want %d", v, i)
		}
	}
	if v := q.Pop(); v != 0 {
		return fmt.Sprintf("Pop on the emptied stack returned %d", v)
	}
	q.Push(7)
	q.Push(8)
	if v := q.Pop(); v != 8 {
		return fmt.Sprintf("got %d, want 8", v)
	}
	q.Push(9)
	if a, b := q.Pop(), q.Pop(); a != 9 || b != 7 {
		return fmt.Sprintf("interleaved Push/Pop: got %d,%d want 9,7", a, b)
	}
	return ""
}

func govcConservation() string {
	const producers, per = 4, 3000
	var q AtomicLIFO[int]
	seen := make([]atomic.Int32, producers*per+1)
	var popped atomic.Int64
	var wg sync.WaitGroup
	stop := make(chan struct{})
	for c := 0; c < 4; c++ {
		wg.Add(1)
		go func() {
			defer wg.Done()
			for {
				v := q.Pop()
				if v != 0 {
					if v < 0 || v > producers*per {
						popped.Store(-1 << 40)
						return
					}
					seen[v].Add(1)
					popped.Add(1)
					continue
				}
				select {
				case <-stop:
					return
				default:
				}
			}
		}()
	}
	var pw sync.WaitGroup
	for p := 0; p < producers; p++ {
		p := p
		pw.Add(1)
		go func() {
			defer pw.Done()
			for i := 1; i <= per; i++ {
				q.Push(p*per + i)
			}
		}()
	}
	pw.Wait()
	deadline := time.Now().Add(3 * time.Second)
	for popped.Load() < producers*per && popped.Load() >= 0 && time.Now().Before(deadline) {
		time.Sleep(time.Millisecond)
	}
	close(stop)
	wg.Wait()
	if popped.Load() < 0 {
		return "Pop returned a value that was never pushed"
	}
	for v := 1; v <= producers*per; v++ {
		if n := seen[v].Load(); n != 1 {
			return fmt.Sprintf("value %d was pushed once and popped %d times", v, n)
		}
	}
	return ""
}

func TestGovcReplay(t *testing.T) {
	if os.Getenv("GOVC_REPLAY_FILE") == "" {
		t.Skip("no replay file")
	}
	verdict := "NOT-REPRODUCED"
	for _, s := range []func() string{govcSequential, govcConservation, govcConservation} {
		if msg := s(); msg != "" {
			verdict = "REPRODUCED " + msg
			break
		}
	}
	fmt.Println("GOVC-REPLAY: " + verdict)
}
