package padding

// Replay driver for GoVC counterexamples (injected with go test -overlay; never written into /repo).
// It rebuilds the solver's input, calls the real function and evaluates the property (C19) directly.

import (
	"bytes"
	"encoding/json"
	"fmt"
	"os"
	"testing"
)

type govcBytes struct {
	Len   int   `json:"len"`
	Cap   int   `json:"cap"`
	Nil   bool  `json:"nil"`
	Elems []int `json:"elems"`
}

func (b govcBytes) build() []byte {
	if b.Nil {
		return nil
	}
	c := b.Cap
	if c < b.Len || c > b.Len+4096 {
		c = b.Len + (c-b.Len)%4096
		if c < b.Len {
			c = b.Len
		}
	}
	out := make([]byte, b.Len, c)
	for i, e := range b.Elems {
		if i < len(out) {
			out[i] = byte(e)
		}
	}
	// fill spare capacity with non-zero garbage so that missing zeroing is observable
	spare := out[len(out):cap(out)]
	for i := range spare {
		spare[i] = 0xAA
	}
	return out
}

func TestGovcReplay(t *testing.T) {
	path := os.Getenv("GOVC_REPLAY_FILE")
	if path == "" {
		t.Skip("no replay file")
	}
	raw, err := os.ReadFile(path)
	if err != nil {
		t.Fatal(err)
	}
	var rf struct {
		Function string `json:"function"`
		Inputs   struct {
			Data govcBytes `json:"data"`
		} `json:"inputs"`
	}
	if err := json.Unmarshal(raw, &rf); err != nil {
		t.Fatal(err)
	}
	verdict := "NOT-REPRODUCED"
	func() {
		defer func() {
			if r := recover(); r != nil {
				verdict = fmt.Sprintf("REPRODUCED %s(%v) panicked: %v", rf.Function, rf.Inputs.Data.Elems, r)
			}
		}()
		data := rf.Inputs.Data.build()
		orig := append([]byte(nil), data...)
		switch rf.Function {
		case "UnpadInPlace":
			out, err := UnpadInPlace(data)
			// oracle: if data is the padded form of some x then out == x, err == nil
			n := len(orig)
			if n >= 1 {
				p := int(orig[n-1])
				if n%32 == 0 && p < 32 && n-1-p >= 0 && p == (32-(n-1-p+1)%32)%32 {
					x := orig[:n-1-p]
					if err != nil || !bytes.Equal(out, x) {
						verdict = fmt.Sprintf("REPRODUCED UnpadInPlace(%v) is the padded form of a %d-byte message but returned (%v, %v)", orig, len(x), out, err)
					}
				}
			}
			if err == nil && len(out) > n {
				verdict = fmt.Sprintf("REPRODUCED UnpadInPlace over-reads: %d > %d", len(out), n)
			}
		case "PadInPlace":
			out := PadInPlace(data)
			bad := ""
			if len(out)%32 != 0 || len(out) < 32 || len(out) <= len(orig) {
				bad = fmt.Sprintf("bad length %d", len(out))
			} else if !bytes.Equal(out[:len(orig)], orig) {
				bad = "does not start with the input"
			} else {
				p := int(out[len(out)-1])
				if len(out)-1-p != len(orig) {
					bad = fmt.Sprintf("trailer %d does not give back the input length", p)
				}
				for _, b := range out[len(orig) : len(out)-1] {
					if b != 0 {
						bad = "padding bytes are not zero"
					}
				}
				if bad == "" {
					x, err := UnpadInPlace(append([]byte(nil), out...))
					if err != nil || !bytes.Equal(x, orig) {
						bad = fmt.Sprintf("UnpadInPlace(PadInPlace(x)) = (%v, %v) != x", x, err)
					}
				}
			}
			if bad != "" {
				verdict = fmt.Sprintf("REPRODUCED PadInPlace(len=%d cap=%d %v): %s", len(orig), cap(data), orig, bad)
			}
		default:
			verdict = "UNSUPPORTED function " + rf.Function
		}
	}()
	fmt.Println("GOVC-REPLAY: " + verdict)
}
