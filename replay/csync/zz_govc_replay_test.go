package csync

// Replay driver for GoVC findings in csync (injected with go test -overlay; never written into /repo).
// Failed obligations of the monitor proofs come with a counterexample-to-induction, not with an input;
// the driver maps the failed obligation to the scenario that the broken invariant rules out and runs it
// against the real code. Oracles use the public API only.

import (
	"context"
	"encoding/json"
	"fmt"
	"os"
	"strings"
	"sync"
	"sync/atomic"
	"testing"
	"time"
)

const govcGrace = 400 * time.Millisecond

// a waiter that becomes grantable must get the lock without any further unrelated operation
func govcRWCancelledWriter() string {
	var m RWMutex
	r1, _ := m.Lock(context.Background(), false)
	wctx, wcancel := context.WithCancel(context.Background())
	wdone := make(chan error, 1)
	go func() { _, err := m.Lock(wctx, true); wdone <- err }()
	time.Sleep(40 * time.Millisecond)
	got := make(chan struct{})
	go func() { rel, _ := m.Lock(context.Background(), false); close(got); rel() }()
	time.Sleep(40 * time.Millisecond)
	wcancel()
	<-wdone
	select {
	case <-got:
		r1()
		return ""
	case <-time.After(govcGrace):
		r1()
		<-got
		return "reader R2 started while writer W was waiting; W was cancelled; R2 stayed blocked until the unrelated release of R1"
	}
}

func govcHandOff(rw bool, write bool) string {
	lock := func(ctx context.Context) (func(), error) { return nil, nil }
	if rw {
		var m RWMutex
		lock = func(ctx context.Context) (func(), error) { return m.Lock(ctx, write) }
		if !write {
			// readers never block each other: use a writer as first holder
			first, _ := m.Lock(context.Background(), true)
			got := make(chan struct{})
			go func() { rel, _ := m.Lock(context.Background(), false); close(got); rel() }()
			time.Sleep(40 * time.Millisecond)
			first()
			select {
			case <-got:
				return ""
			case <-time.After(govcGrace):
				return "a waiting reader was not woken by the writer's release"
			}
		}
	} else {
		var m Mutex
		lock = m.Lock
	}
	first, _ := lock(context.Background())
	got := make(chan struct{})
	go func() { rel, _ := lock(context.Background()); close(got); rel() }()
	time.Sleep(40 * time.Millisecond)
	first()
	select {
	case <-got:
		return ""
	case <-time.After(govcGrace):
		return "a waiter was not woken by the holder's release"
	}
}

// random mix of Lock / TryLock / double release / cancellation with an occupancy oracle
func govcStress(rw bool) string {
	var mu Mutex
	var rwm RWMutex
	var writers, readers atomic.Int32
	var bad atomic.Value
	deadline := time.Now().Add(1200 * time.Millisecond)
	var wg sync.WaitGroup
	for g := 0; g < 8; g++ {
		wg.Add(1)
		go func(g int) {
			defer wg.Done()
			for i := 0; time.Now().Before(deadline); i++ {
				write := !rw || (g+i)%3 == 0
				ctx, cancel := context.WithCancel(context.Background())
				if (g+i)%5 == 0 {
					go func() { time.Sleep(time.Duration((g+i)%3) * time.Millisecond); cancel() }()
				}
				var rel func()
				var ok bool
				switch {
				case rw && i%4 == 1:
					rel, ok = rwm.TryLock(write)
				case rw:
					r, err := rwm.Lock(ctx, write)
					rel, ok = r, err == nil
				case i%4 == 1:
					rel, ok = mu.TryLock()
				default:
					r, err := mu.Lock(ctx)
					rel, ok = r, err == nil
				}
				cancel()
				if !ok {
					continue
				}
				if write {
					if writers.Add(1) != 1 || readers.Load() != 0 {
						bad.Store("two holders at once (writer entered while another holder was inside)")
					}
					time.Sleep(time.Duration(i%3) * 100 * time.Microsecond)
					writers.Add(-1)
				} else {
					readers.Add(1)
					if writers.Load() != 0 {
						bad.Store("reader inside together with a writer")
					}
					time.Sleep(time.Duration(i%3) * 100 * time.Microsecond)
					readers.Add(-1)
				}
				rel()
				if i%2 == 0 {
					rel() // repeated release must be a no-op
				}
			}
		}(g)
	}
	done := make(chan struct{})
	go func() { wg.Wait(); close(done) }()
	select {
	case <-done:
	case <-time.After(6 * time.Second):
		return "callers still blocked long after every holder released (lost wake-up or leaked lock)"
	}
	if v := bad.Load(); v != nil {
		return v.(string)
	}
	// afterwards the lock must be free
	if rw {
		rel, ok := rwm.TryLock(true)
		if !ok {
			return "RWMutex not free after all holders released and all waiters returned"
		}
		rel()
	} else {
		rel, ok := mu.TryLock()
		if !ok {
			return "Mutex not free after all holders released and all waiters returned"
		}
		rel()
	}
	return ""
}

func TestGovcReplay(t *testing.T) {
	path := os.Getenv("GOVC_REPLAY_FILE")
	if path == "" {
		t.Skip("no replay file")
	}
	raw, err := os.ReadFile(path)
	if err != nil {
		t.Fatal(err)
	}
	var rf struct {
		Obligation string `json:"obligation"`
	}
	if err := json.Unmarshal(raw, &rf); err != nil {
		t.Fatal(err)
	}
	ob := rf.Obligation
	rw := strings.Contains(ob, "RWMutex")
	var tries []func() string
	if rw {
		tries = append(tries, govcRWCancelledWriter, func() string { return govcHandOff(true, true) }, func() string { return govcHandOff(true, false) }, func() string { return govcStress(true) })
	} else {
		tries = append(tries, func() string { return govcHandOff(false, true) }, func() string { return govcStress(false) })
	}
	for _, f := range tries {
		res := make(chan string, 1)
		go func() { res <- f() }()
		select {
		case msg := <-res:
			if msg != "" {
				fmt.Println("GOVC-REPLAY: REPRODUCED " + msg)
				return
			}
		case <-time.After(20 * time.Second):
			fmt.Println("GOVC-REPLAY: REPRODUCED scenario did not terminate within 20s (deadlock)")
			return
		}
	}
	fmt.Println("GOVC-REPLAY: NOT-REPRODUCED by the hand-off, cancelled-waiter and stress scenarios")
}
