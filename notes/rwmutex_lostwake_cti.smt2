(set-option :produce-models true)
(declare-sort Call 0)
(declare-const nreaders Int) (declare-const writing Bool) (declare-const ww Int)
(declare-const ch Int)
(declare-fun closed (Int) Bool)
(declare-fun waiting (Call) Bool)
(declare-fun wmode (Call) Bool)
(declare-fun wch (Call) Int)
(define-fun grantable ((c Call) (nr Int) (w Bool) (x Int)) Bool
  (ite (wmode c) (and (= nr 0) (not w)) (and (not w) (= x 0))))
; invariant pre
(assert (>= nreaders 0)) (assert (>= ww 0))
(assert (not (closed ch)))
(assert (forall ((c Call)) (=> (waiting c)
   (or (closed (wch c)) (and (= (wch c) ch) (not (= ch 0)) (not (grantable c nreaders writing ww)))))))
; the releasing call d: a cancelled waiting writer
(declare-const d Call)
(assert (waiting d)) (assert (wmode d))
; ww counts waiting writers: need ww >= 1 (from counting invariant; assume here)
(assert (>= ww 1))
; action: ww' = ww-1, no broadcast; d no longer waiting
(define-fun ww2 () Int (- ww 1))
; negated post invariant
(declare-const c Call)
(assert (not (= c d)))
(assert (waiting c))
(assert (not (or (closed (wch c)) (and (= (wch c) ch) (not (= ch 0)) (not (grantable c nreaders writing ww2))))))
(check-sat)
(get-model)
